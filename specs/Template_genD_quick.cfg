CONSTANTS MaxLen = 3
 Alphabet = {0}
INIT GenInitD
NEXT GenNone
INVARIANT EmitCase
CHECK_DEADLOCK FALSE
