CONSTANTS PathSeq <- MCPathSeq
 Hashes <- MCHashes
 RawLines <- MCRawLines
 MaxLines = 0
INIT GenInitSave
NEXT GenNone
INVARIANT C08_ReadBackSame C08_SortedOnePerEntry
CHECK_DEADLOCK FALSE
