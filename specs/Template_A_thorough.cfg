CONSTANTS MaxLen = 6
 Alphabet = {97, 98, 95, 64, 39, 10, 32, 233, 55}
INIT GenInitT
NEXT GenNextT
INVARIANT DesignScannerAgrees DesignNoRescan
CHECK_DEADLOCK FALSE
