--------------------------- MODULE MC_FuncResults ---------------------------
EXTENDS FuncResults
MCFuncs == {"f", "g", "h"}
(* a call graph with self recursion, mutual recursion and cross-index forwarding, through (T, error) results *)
MCCalls == [pr \in {<<x, i>> : x \in MCFuncs, i \in 1..2} |->
              CASE pr[1] = "f" -> {<<"f", pr[2]>>, <<"g", pr[2]>>}
                [] pr[1] = "g" -> {<<"h", 1>>, <<"h", 2>>, <<"f", pr[2]>>}
                [] pr[1] = "h" -> {<<"g", 3 - pr[2]>>, <<"h", pr[2]>>}]
MCShapes == {"lit1", "lit2", "litops", "litbool", "litpair", "self", "mutual", "closure", "named", "forward", "foreign", "iface", "assigned", "closureNamed", "wide", "chain", "closure3", "spread", "litoctal", "localconst", "localconststr"}
=============================================================================
