CONSTANTS Paths = {"-"}
 Self = "self.io/me"
 MaxSteps = 0
 LastKinds = {"ref"}
 AbsPaths <- MCAbsPaths
 Cand <- MCCand
 UseFallback = TRUE
INIT AInit
NEXT ANext
INVARIANT DesignAllNamed DesignInjective DesignNoBadName
CHECK_DEADLOCK FALSE
