CONSTANTS Depth = 5
 Width = 2
 LeafIds = {"abcD"}
INIT GenInit
NEXT GenNext
INVARIANT EmitCase DesignRoundTrip DesignSplit
CHECK_DEADLOCK FALSE
