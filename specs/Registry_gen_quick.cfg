CONSTANTS Names = {"a", "b"}
 Ids = {1, 2}
 MaxOps = 4
 Queries <- MCQueries
INIT GenInit
NEXT GenNext
INVARIANT EmitCase
CHECK_DEADLOCK FALSE
