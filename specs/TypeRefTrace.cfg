CONSTANTS Depth = 1
 Width = 0
 LeafIds = {"int"}
INIT JInit
NEXT JNext
INVARIANT Verdict
CHECK_DEADLOCK FALSE
