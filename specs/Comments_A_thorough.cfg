CONSTANTS MaxLen = 7
 Alphabet = {32, 43, 64, 61, 107, 118}
 Kinds = {"B", "C", "G", "K", "D", "T", "M"}
 Contexts = {"top"}
 TrailingInLeading = FALSE
INIT GenInitLay
NEXT GenNextLay
INVARIANT DesignIndexIsGeometry
CHECK_DEADLOCK FALSE
