CONSTANTS Menu = "C08"
 MaxTail = 3
 Layouts = {"siblings", "nested", "root"}
 AllPlants = FALSE
 Lite = FALSE
 Flavours <- Flav_plain
INIT HInit
NEXT HNext
INVARIANT EmitCase
CHECK_DEADLOCK FALSE
