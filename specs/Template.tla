------------------------------ MODULE Template ------------------------------
(* pkg/gengo/snippet: T (named templates), Sprintf (%v %T %%), Comment, GoDirective, Snippets /
   Fragments  -- property C09.

   All text is a sequence of Unicode code points. The module contains
     - declarative references written from the property statement (ExpandT, ExpandS, CommentRef, ...),
     - a scanner-shaped machine for T (ScanT: mode text/name, one step per rune) which Loop A
       proves equal to the declarative reference for every format in bound,
     - generation machines (one per API) whose reachable states are the test inputs (Loop B).   *)
EXTENDS Naturals, Sequences, FiniteSets, TLC, Json

CONSTANTS MaxLen,        \* bound on the format length
          Alphabet       \* code points the generation machine appends

At == 64  Apos == 39  Pct == 37  NL == 10  LowV == 118  UpT == 84

IsNameChar(c) == c \in 48..57 \/ c \in 65..90 \/ c \in 97..122 \/ c = 95

(* ---------------------------------------------------------------- bindings and their renderings *)
(* what an argument of each kind renders to, completely *)
Rendering(kind) ==
    CASE kind = "lit"    -> <<76, 73, 84>>                 \* Block("LIT")
      [] kind = "at"     -> <<64, 97, 39, 120>>            \* Block("@a'x")   placeholder-looking text
      [] kind = "nested" -> <<60, 78, 62>>                 \* T("<@i>", Arg("i", Block("N")))
      [] kind = "snips"  -> <<80, 81>>                     \* Snippets(Block("P"), Block(""), Block("Q"))
      [] kind = "empty"  -> <<>>                           \* Block("")       IsNil() = true
      [] kind = "idnil"  -> <<>>                           \* snippet.ID(nil) IsNil() = true
      [] kind = "nil"    -> <<>>                           \* a nil Snippet
      [] kind = "self"   -> <<84>>                         \* ID("self.io/me.T"): a type of the file's own package - "T" there, qualified elsewhere
      \* Sprintf arguments
      [] kind = "int7"   -> <<55>>                         \* %v of 7
      [] kind = "str"    -> <<34, 115, 34>>                \* %v of "s"
      [] kind = "snip"   -> <<83>>                         \* Block("S") under %v or %T
      [] kind = "rtype"  -> <<105, 110, 116>>              \* %T of reflect.TypeOf(0)
      [] kind = "name"   -> <<102, 109, 116, 46, 83, 116, 114, 105, 110, 103, 101, 114>>   \* %T of "fmt.Stringer"

(* the fixed binding environment of the generation machine: name -> kind; every other name is unbound *)
EnvPairs == << <<<<97>>, "lit">>,            \* a
               <<<<98>>, "empty">>,          \* b
               <<<<95>>, "at">>,             \* _
               <<<<55>>, "nested">>,         \* 7
               <<<<97, 97>>, "snips">>,      \* aa
               <<<<97, 98>>, "nil">>,        \* ab
               <<<<98, 97>>, "idnil">>,      \* ba
               <<<<97, 55>>, "self">> >>     \* a7

EnvOf(pairs) == [n \in {pairs[i][1] : i \in 1..Len(pairs)} |->
                    pairs[CHOOSE i \in 1..Len(pairs) : pairs[i][1] = n][2]]

(* ---------------------------------------------------------------- T: declarative reference *)
RECURSIVE TrimNL(_)
TrimNL(s) == IF s # <<>> /\ Head(s) = NL THEN TrimNL(Tail(s)) ELSE s

RECURSIVE NameEnd(_, _)    \* first index >= i that is not a name character
NameEnd(s, i) == IF i <= Len(s) /\ IsNameChar(s[i]) THEN NameEnd(s, i + 1) ELSE i

Res(p, o) == [panic |-> p, out |-> o]

RECURSIVE Exp(_, _, _, _)
Exp(s, i, env, out) ==
    IF i > Len(s) THEN Res(FALSE, out)
    ELSE IF s[i] = At /\ NameEnd(s, i + 1) > i + 1
         THEN LET j == NameEnd(s, i + 1)
                  name == SubSeq(s, i + 1, j - 1)
              IN IF name \notin DOMAIN env THEN Res(TRUE, out)        \* unbound placeholder: panic
                 ELSE Exp(s, IF j <= Len(s) /\ s[j] = Apos THEN j + 1 ELSE j,      \* one apostrophe is a delimiter
                          env, out \o Rendering(env[name]))           \* substituted text is never rescanned
         ELSE Exp(s, i + 1, env, Append(out, s[i]))                   \* every other character, a lone '@' included

ExpandT(fmt, env) == Exp(TrimNL(fmt), 1, env, <<>>)

(* ---------------------------------------------------------------- T: scanner-shaped machine *)
(* mode "text": copy runes, '@' switches to "name"; mode "name": collect name runes; the first other rune
   (or end of input) closes the name: empty name -> the '@' was an ordinary character; otherwise
   substitute, swallow the closing rune iff it is an apostrophe, and re-read it in text mode otherwise. *)
RECURSIVE Scan(_, _, _, _, _, _)
Scan(s, i, mode, name, env, out) ==
    IF mode = "text"
    THEN IF i > Len(s) THEN Res(FALSE, out)
         ELSE IF s[i] = At THEN Scan(s, i + 1, "name", <<>>, env, out)
              ELSE Scan(s, i + 1, "text", <<>>, env, Append(out, s[i]))
    ELSE IF i <= Len(s) /\ IsNameChar(s[i]) THEN Scan(s, i + 1, "name", Append(name, s[i]), env, out)
         ELSE IF name = <<>> THEN Scan(s, i, "text", <<>>, env, Append(out, At))
              ELSE IF name \notin DOMAIN env THEN Res(TRUE, out)
                   ELSE Scan(s, IF i <= Len(s) /\ s[i] = Apos THEN i + 1 ELSE i, "text", <<>>, env,
                             out \o Rendering(env[name]))

ScanT(fmt, env) == Scan(TrimNL(fmt), 1, "text", <<>>, env, <<>>)

(* ---------------------------------------------------------------- Sprintf *)
(* args: sequence of kinds. amb marks the one input class the statement leaves open: a '%' that is
   the last character (no verb at all). *)
SRes(p, o, a) == [panic |-> p, out |-> o, amb |-> a]

RECURSIVE Spf(_, _, _, _)
Spf(s, i, args, out) ==
    IF i > Len(s) THEN SRes(FALSE, out, FALSE)
    ELSE IF s[i] # Pct THEN Spf(s, i + 1, args, Append(out, s[i]))
    ELSE IF i = Len(s) THEN SRes(TRUE, out, TRUE)
    ELSE LET v == s[i + 1] IN
         IF v = Pct THEN Spf(s, i + 2, args, Append(out, Pct))
         ELSE IF v \in {LowV, UpT}
              THEN IF args = <<>> THEN SRes(TRUE, out, FALSE)                  \* missing argument
                   ELSE Spf(s, i + 2, Tail(args), out \o Rendering(Head(args)))
              ELSE SRes(TRUE, out, FALSE)                                      \* any other verb

ExpandS(fmt, args) == Spf(fmt, 1, args, <<>>)

KindsFor(v) == IF v = LowV THEN {"int7", "str", "snip"} ELSE {"snip", "rtype", "name"}

(* ---------------------------------------------------------------- Comment, GoDirective, Snippets *)
RECURSIVE SplitNL(_, _, _)
SplitNL(s, cur, done) == IF s = <<>> THEN Append(done, cur)
                         ELSE IF Head(s) = NL THEN SplitNL(Tail(s), <<>>, Append(done, cur))
                         ELSE SplitNL(Tail(s), Append(cur, Head(s)), done)

RECURSIVE JoinLines(_, _)
JoinLines(ls, i) == IF i > Len(ls) THEN <<>>
                    ELSE (IF i > 1 THEN <<NL>> ELSE <<>>) \o <<47, 47, 32>> \o ls[i] \o JoinLines(ls, i + 1)

CommentRef(text) == IF text = <<>> THEN <<>> ELSE JoinLines(SplitNL(text, <<>>, <<>>), 1)

RECURSIVE DirArgs(_, _)
DirArgs(as, i) == IF i > Len(as) THEN <<>>
                  ELSE (IF as[i] # <<>> THEN <<32>> \o as[i] ELSE <<>>) \o DirArgs(as, i + 1)

DirectiveRef(d, as) == IF d = <<>> THEN <<>> ELSE <<47, 47, 103, 111, 58>> \o d \o DirArgs(as, 1)

RECURSIVE ConcatParts(_, _)
ConcatParts(ps, i) == IF i > Len(ps) THEN <<>> ELSE Rendering(ps[i]) \o ConcatParts(ps, i + 1)

(* ---------------------------------------------------------------- generation machines *)
VARIABLES api, fmt, args, closed

vars == <<api, fmt, args, closed>>

(* T: every string over Alphabet up to MaxLen *)
GenInitT == api = "T" /\ fmt = <<>> /\ args = <<>> /\ closed = FALSE
GenNextT == /\ Len(fmt) < MaxLen
            /\ \E c \in Alphabet : fmt' = Append(fmt, c)
            /\ UNCHANGED <<api, args, closed>>

(* Sprintf: every string over Alphabet; when a verb completes its argument kind is chosen, or the
   argument list ends there ("missing") *)
PendingPct(s) == LET RECURSIVE P(_, _)
                     P(i, pend) == IF i > Len(s) THEN pend
                                   ELSE IF pend THEN P(i + 1, FALSE) ELSE P(i + 1, s[i] = Pct)
                 IN P(1, FALSE)

GenInitS == api = "Sprintf" /\ fmt = <<>> /\ args = <<>> /\ closed = FALSE
GenNextS == /\ Len(fmt) < MaxLen
            /\ \E c \in Alphabet :
                 /\ fmt' = Append(fmt, c)
                 /\ IF PendingPct(fmt) /\ c \in {LowV, UpT} /\ ~closed
                    THEN \/ \E k \in KindsFor(c) : args' = Append(args, k) /\ closed' = closed
                         \/ args' = args /\ closed' = TRUE
                    ELSE UNCHANGED <<args, closed>>
            /\ UNCHANGED api

(* Comment / GoDirective / Snippets: the whole (small) input space as initial states *)
SeqsUpTo(S, n) == UNION {[1..k -> S] : k \in 0..n}

(* the text is arbitrary: it includes the characters that mean something to the other rendering entry points (% @ ') *)
GenInitC == api = "Comment" /\ fmt \in SeqsUpTo({97, 32, NL, 37, 64, 39}, MaxLen) /\ args = <<>> /\ closed = FALSE
GenInitD == /\ api = "GoDirective"
            /\ fmt \in {<<>>, <<101, 109, 98, 101, 100>>}                       \* "" | "embed"
            /\ args \in SeqsUpTo({<<>>, <<120>>, <<121, 32, 122>>}, 3)          \* "" | "x" | "y z"
            /\ closed = FALSE
GenInitP == /\ api = "Snippets" /\ fmt = <<>>
            /\ args \in SeqsUpTo({"lit", "empty", "nil", "nested", "idnil", "at"}, MaxLen)
            /\ closed = FALSE
GenNone == FALSE /\ UNCHANGED vars

(* ---------------------------------------------------------------- Loop A / Loop B *)
Env == EnvOf(EnvPairs)

DesignScannerAgrees == api = "T" => ScanT(fmt, Env) = ExpandT(fmt, Env)
DesignNoRescan == api = "T" => LET r == ExpandT(fmt, Env) IN
                    (~r.panic /\ \A i \in 1..Len(fmt) : fmt[i] # At) => r.out = TrimNL(fmt)

EmitCase == PrintT(<<"CASE", ToJson([fam |-> "template",
                                     case |-> [api |-> api, fmt |-> fmt, args |-> args, env |-> EnvPairs]])>>)
=============================================================================
