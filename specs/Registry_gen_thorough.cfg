CONSTANTS Names = {"a", "b"}
 Ids = {1, 2}
 MaxOps = 5
 Queries <- MCQueries
INIT GenInit
NEXT GenNext
INVARIANT EmitCase
CHECK_DEADLOCK FALSE
