------------------------- MODULE PartialStructTrace -------------------------
EXTENDS MC_PartialStruct, IOUtils
Trace == ndJsonDeserialize(IOEnv.TRACE)
VARIABLES l, bad

Conjuncts == {"C18_Generates", "C18_Compiles", "C18_FieldsInOrder", "C18_TypesIdentical", "C18_Tags", "C18_NilCopiesToNil", "C18_RetainedEqual", "C18_OmittedZero",
              "C18_ErrorReported", "C18_ProbeRan"}

ToSet(s) == {s[i] : i \in 1..Len(s)}

Holds(c, r) ==
    LET o == r.obs
        cs == r.case
        isErr == cs.errshape # "none"
        want == Retained(cs.origin, ToSet(cs.omit), cs.replace)
        live == ~isErr /\ o.gen_err = "" /\ o.compile_errors = <<>> /\ o.ran
    IN CASE c = "C18_ErrorReported"   -> ~isErr \/ (o.gen_err # "" /\ ~o.file_written)
         [] c = "C18_Generates"       -> isErr \/ o.gen_err = ""
         [] c = "C18_Compiles"        -> isErr \/ o.gen_err # "" \/ o.compile_errors = <<>>
         [] c = "C18_ProbeRan"        -> isErr \/ o.gen_err # "" \/ o.compile_errors # <<>> \/ (o.ran /\ o.probe_panic = "")
         [] c = "C18_FieldsInOrder"   -> ~live \/ [k \in 1..Len(o.fields) |-> o.fields[k].origin_index] = [k \in 1..Len(want) |-> want[k].idx]
         [] c = "C18_TypesIdentical"  -> ~live \/ Len(o.fields) # Len(want) \/
                                            \A k \in 1..Len(want) : IF want[k].replaced THEN o.fields[k].type_is_replacement ELSE o.fields[k].type_identical
         [] c = "C18_Tags"            -> ~live \/ Len(o.fields) # Len(want) \/
                                            \A k \in 1..Len(want) : IF want[k].replaced /\ cs.replace = "typeAndTag" THEN o.fields[k].tag_is_replacement ELSE o.fields[k].tag_identical
         [] c = "C18_NilCopiesToNil"  -> ~live \/ o.nil_to_nil
         [] c = "C18_RetainedEqual"   -> ~live \/ o.retained_unequal = <<>>
         [] c = "C18_OmittedZero"     -> ~live \/ o.omitted_nonzero = <<>>

Failed(r) == {c \in Conjuncts : ~Holds(c, r)}

JInit == l = 1 /\ bad = {} /\ origin = <<>> /\ shift = 0 /\ omit = {} /\ replace = "none" /\ errshape = "none"
JNext == /\ l <= Len(Trace)
         /\ l' = l + 1
         /\ LET r == Trace[l]
                f == Failed(r)
            IN bad' = IF f = {} THEN bad ELSE bad \cup {[id |-> r.id, failed |-> f]}
         /\ UNCHANGED <<origin, shift, omit, replace, errshape>>

Verdict == l = Len(Trace) + 1 =>
             PrintT(<<"VERDICT", ToJson([consumed |-> l - 1, bad |-> bad, stats |-> [x |-> 0]])>>)
=============================================================================
