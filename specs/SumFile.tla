------------------------------ MODULE SumFile ------------------------------
(* pkg/sumfile: the line-oriented gengo.sum file (part of property C08: "one `path hash` line per local package in sorted
   order ... reading the file back yields the same mapping").

   A mapping is a partial function from package paths to hashes. Bytes(m) is the sequence of lines <<path, hash>> in
   path order; Load reads a sequence of raw lines - each a sequence of whitespace-separated fields - and takes the first
   two fields of every line that has at least two (later lines win); anything else is ignored, so that a damaged file
   degrades to "fewer entries", never to an error that would stop a run.
   Loop A: Load(Bytes(m)) = m for every mapping; Bytes is sorted and has one line per entry.
   Loop B: every mapping over the path universe, and every list of raw lines up to MaxLines, is written / read with the
   real package.                                                                                                    *)
EXTENDS Naturals, Sequences, FiniteSets, TLC, Json

CONSTANTS PathSeq,      \* the path universe, in byte order (sequence of strings)
          Hashes,       \* set of hash strings
          RawLines,     \* set of raw lines (each a sequence of fields) for the Load side
          MaxLines

PathSet == {PathSeq[i] : i \in 1..Len(PathSeq)}
Maps == UNION {[D -> Hashes] : D \in SUBSET PathSet}

Bytes(m) == LET idx == SelectSeq([i \in 1..Len(PathSeq) |-> i], LAMBDA i : PathSeq[i] \in DOMAIN m)
            IN [k \in 1..Len(idx) |-> <<PathSeq[idx[k]], m[PathSeq[idx[k]]]>>]

RECURSIVE LoadFrom(_, _, _)
LoadFrom(lines, i, acc) ==
    IF i > Len(lines) THEN acc
    ELSE LET f == lines[i] IN
         IF Len(f) >= 2 THEN LoadFrom(lines, i + 1, [p \in DOMAIN acc \cup {f[1]} |-> IF p = f[1] THEN f[2] ELSE acc[p]])
         ELSE LoadFrom(lines, i + 1, acc)
Load(lines) == LoadFrom(lines, 1, <<>>)

VARIABLES side, m, lines
GenInitSave == side = "save" /\ m \in Maps /\ lines = <<>>
GenInitLoad == side = "load" /\ m = <<>> /\ lines \in UNION {[1..n -> RawLines] : n \in 0..MaxLines}
GenNone == FALSE /\ UNCHANGED <<side, m, lines>>

C08_ReadBackSame == side = "save" => Load(Bytes(m)) = m
C08_SortedOnePerEntry == side = "save" => Len(Bytes(m)) = Cardinality(DOMAIN m)

(* a mapping is emitted as a sequence of <<path, hash>> (JSON has no functions with arbitrary keys worth relying on) *)
AsPairs(f) == LET idx == SelectSeq([i \in 1..Len(PathSeq) |-> i], LAMBDA i : PathSeq[i] \in DOMAIN f) IN [k \in 1..Len(idx) |-> <<PathSeq[idx[k]], f[PathSeq[idx[k]]]>>]
EmitCase == PrintT(<<"CASE", ToJson([fam |-> "sumfile", case |-> [side |-> side, pairs |-> AsPairs(m), lines |-> lines]])>>)
=============================================================================
