--------------------------- MODULE UniverseTrace ---------------------------
(* Loop C for C13: one line per loaded package; the key sets of gengo's tables against go/types' package scope
   (logged by the harness from Pkg().Scope()), identity and method / import / location facts. *)
EXTENDS MC_Universe, IOUtils

Trace == ndJsonDeserialize(IOEnv.TRACE)
VARIABLES l, bad

Conjuncts == {"C13_NoPanic", "C13_Types", "C13_Constants", "C13_Functions", "C13_Identity", "C13_Methods", "C13_ValueMethods",
              "C13_Imports", "C13_Locate", "C13_LocateImported", "C13_SourceDir"}

ToSet(s) == {s[i] : i \in 1..Len(s)}
Aside == {"init", "_"}

Holds(c, r) ==
    LET o == r.obs IN
    CASE c = "C13_NoPanic"      -> ~o.panicked
      [] c = "C13_Types"        -> o.panicked \/ ToSet(o.types) = ToSet(o.scope_types)
      [] c = "C13_Constants"    -> o.panicked \/ ToSet(o.consts) = ToSet(o.scope_consts)
      [] c = "C13_Functions"    -> o.panicked \/ ToSet(o.funcs) \ Aside = ToSet(o.scope_funcs) \ Aside
      [] c = "C13_Identity"     -> o.panicked \/ o.identity_bad = <<>>
      [] c = "C13_Methods"      -> o.panicked \/ \A i \in 1..Len(o.methods) : ToSet(o.methods[i].got_all) = ToSet(o.methods[i].want_all)
                                                                             /\ Len(o.methods[i].got_all) = Len(o.methods[i].want_all)
      [] c = "C13_ValueMethods" -> o.panicked \/ \A i \in 1..Len(o.methods) : ToSet(o.methods[i].got_value) = ToSet(o.methods[i].want_value)
                                                                             /\ Len(o.methods[i].got_value) = Len(o.methods[i].want_value)
      [] c = "C13_Imports"      -> o.panicked \/ (o.imports_nil = <<>> /\ o.imports_other = <<>> /\ ToSet(o.imports_keys) = ToSet(o.imports_want))
      [] c = "C13_Locate"       -> o.panicked \/ ~o.in_module \/ o.locate_bad = <<>>
      (* ... also for positions in imported packages (of a module) that nobody has asked the universe for yet *)
      [] c = "C13_LocateImported" -> o.panicked \/ o.locate_imported_bad = <<>>
      [] c = "C13_SourceDir"    -> o.panicked \/ ~o.in_module \/ o.srcdir_ok

Failed(r) == {c \in Conjuncts : ~Holds(c, r)}

JInit == /\ l = 1 /\ bad = {} /\ remaining = {} /\ table = <<>> /\ stack = <<>> /\ registered = {} /\ imports = <<>> /\ todoRoots = {} /\ chosen = {}
JNext == /\ l <= Len(Trace)
         /\ l' = l + 1
         /\ LET r == Trace[l]
                f == Failed(r)
            IN bad' = IF f = {} THEN bad ELSE bad \cup {[id |-> r.id, failed |-> f]}
         /\ UNCHANGED <<remaining, table, stack, registered, imports, todoRoots, chosen>>

Verdict == l = Len(Trace) + 1 =>
             PrintT(<<"VERDICT", ToJson([consumed |-> l - 1, bad |-> bad, stats |-> [x |-> 0]])>>)
=============================================================================
