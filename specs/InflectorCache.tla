--------------------------- MODULE InflectorCache ---------------------------
(* pkg/inflector/internal/rule.go, Rule.Inflected: the memoisation cache under concurrent callers
   (property C20, "also when called concurrently from many goroutines").
   A sync.Map whose entries are sync.OnceValue closures. One action per critical section:
   LoadOrStore (atomic), entering the once (first caller computes, later callers wait), finishing
   the computation, waking up, returning. Checked exhaustively by TLC for all interleavings. *)
EXTENDS Naturals, Sequences, FiniteSets, TLC

CONSTANTS Goroutines, Keys, MaxCalls,
          SeedOutputs    \* BOOLEAN: FALSE = the code. TRUE = the tempting shortcut "an answer is already in its target form": the
                         \* computation of k also stores its OUTPUT string as a finished entry that maps to itself

VARIABLES cache,    \* key -> BOOLEAN            an entry (a once-closure) is stored
          once,     \* key -> "idle" | "running" | "done"
          computes, \* key -> how many times the inflection was computed
          val,      \* key -> value produced by the computation ("none" before)
          pc,       \* goroutine -> "idle" | "called" | "have" | "computing" | "waiting" | "ret"
          cur,      \* goroutine -> key of the call in progress
          ncalls,   \* goroutine -> finished calls
          rets      \* set of <<goroutine, key, value>> returned so far

cvars == <<cache, once, computes, val, pc, cur, ncalls, rets>>

F(k) == <<"inflected", k>>      \* the pure function being memoised

CInit == /\ cache = [k \in Keys |-> FALSE]
         /\ once = [k \in Keys |-> "idle"]
         /\ computes = [k \in Keys |-> 0]
         /\ val = [k \in Keys |-> <<"none">>]
         /\ pc = [g \in Goroutines |-> "idle"]
         /\ cur = [g \in Goroutines |-> CHOOSE k \in Keys : TRUE]
         /\ ncalls = [g \in Goroutines |-> 0]
         /\ rets = {}

Call(g, k) == /\ pc[g] = "idle" /\ ncalls[g] < MaxCalls
              /\ pc' = [pc EXCEPT ![g] = "called"] /\ cur' = [cur EXCEPT ![g] = k]
              /\ UNCHANGED <<cache, once, computes, val, ncalls, rets>>

(* cache.LoadOrStore(s, sync.OnceValue(..)): atomic; whoever comes first stores its closure, everybody
   gets the stored one *)
LoadOrStore(g) == /\ pc[g] = "called"
                  /\ cache' = [cache EXCEPT ![cur[g]] = TRUE]
                  /\ pc' = [pc EXCEPT ![g] = "have"]
                  /\ UNCHANGED <<once, computes, val, cur, ncalls, rets>>

(* calling the once-closure *)
Enter(g) == /\ pc[g] = "have"
            /\ LET k == cur[g] IN
               CASE once[k] = "idle"    -> once' = [once EXCEPT ![k] = "running"] /\ pc' = [pc EXCEPT ![g] = "computing"]
                 [] once[k] = "running" -> once' = once /\ pc' = [pc EXCEPT ![g] = "waiting"]
                 [] once[k] = "done"    -> once' = once /\ pc' = [pc EXCEPT ![g] = "ret"]
            /\ UNCHANGED <<cache, computes, val, cur, ncalls, rets>>

(* the string that is the answer for k is itself a possible question: OutOf(k) is the key it equals (some other key) *)
OutOf(k) == IF Keys \ {k} = {} THEN k ELSE CHOOSE j \in Keys \ {k} : TRUE
Compute(g) == /\ pc[g] = "computing"
              /\ LET k == cur[g]
                     o == OutOf(k)
                     seed == SeedOutputs /\ o # k /\ ~cache[o]         \* LoadOrStore(out, func() string { return out })
                 IN
                 /\ val' = IF seed THEN [val EXCEPT ![k] = F(k), ![o] = <<"itself", o>>] ELSE [val EXCEPT ![k] = F(k)]
                 /\ computes' = [computes EXCEPT ![k] = @ + 1]
                 /\ once' = IF seed THEN [once EXCEPT ![k] = "done", ![o] = "done"] ELSE [once EXCEPT ![k] = "done"]
                 /\ cache' = IF seed THEN [cache EXCEPT ![o] = TRUE] ELSE cache
              /\ pc' = [pc EXCEPT ![g] = "ret"]
              /\ UNCHANGED <<cur, ncalls, rets>>

Wake(g) == /\ pc[g] = "waiting" /\ once[cur[g]] = "done"
           /\ pc' = [pc EXCEPT ![g] = "ret"]
           /\ UNCHANGED <<cache, once, computes, val, cur, ncalls, rets>>

Return(g) == /\ pc[g] = "ret"
             /\ rets' = rets \cup {<<g, cur[g], val[cur[g]]>>}
             /\ pc' = [pc EXCEPT ![g] = "idle"]
             /\ ncalls' = [ncalls EXCEPT ![g] = @ + 1]
             /\ UNCHANGED <<cache, once, computes, val, cur>>

AllDone == \A g \in Goroutines : pc[g] = "idle" /\ ncalls[g] = MaxCalls

CNext == \/ \E g \in Goroutines : \/ \E k \in Keys : Call(g, k)
                                  \/ LoadOrStore(g) \/ Enter(g) \/ Compute(g) \/ Wake(g) \/ Return(g)
         \/ (AllDone /\ UNCHANGED cvars)

CSpec == CInit /\ [][CNext]_cvars /\ WF_cvars(CNext)

C20_ReturnsF     == \A r \in rets : r[3] = F(r[2])                 \* every caller gets the function's value
C20_ComputedOnce == \A k \in Keys : computes[k] <= 1               \* the memo is filled at most once per key
C20_NoLostWaiter == \A g \in Goroutines : pc[g] = "waiting" => once[cur[g]] \in {"running", "done"}
C20_AllReturn    == <>AllDone                                      \* nobody blocks forever (checked with fairness)

=============================================================================
