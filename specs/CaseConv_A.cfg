CONSTANT MaxLen = 7
INIT GenInit
NEXT GenNext
INVARIANT DesignConvKeepsAlnum DesignTotal
CHECK_DEADLOCK FALSE
