CONSTANTS Names = {"a", "b"}
 Ids = {1, 2}
 MaxOps = 0
 Queries <- MCQueries
INIT JInit
NEXT JNext
INVARIANT Verdict
CHECK_DEADLOCK FALSE
