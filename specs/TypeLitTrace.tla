--------------------------- MODULE TypeLitTrace ---------------------------
EXTENDS TypeLit, IOUtils
Trace == ndJsonDeserialize(IOEnv.TRACE)
VARIABLES l, bad

Conjuncts == {"C11_NoPanic", "C11_TypeChecks", "C11_Identical", "C11_ImportsExact", "C11_LocalUnqualified"}
ToSet(s) == {s[i] : i \in 1..Len(s)}

Holds(c, r) ==
    LET o == r.obs IN
    CASE c = "C11_NoPanic"          -> ~o.panicked
      [] c = "C11_TypeChecks"       -> o.panicked \/ o.check_errors = <<>>
      [] c = "C11_Identical"        -> o.panicked \/ o.check_errors # <<>> \/ o.got = o.want
      (* exactly the mentioned packages other than the target are imported (plus what the scenario imported beforehand) *)
      [] c = "C11_ImportsExact"     -> o.panicked \/ ToSet(o.imported) = (ToSet(r.case.mentions) \ {r.case.target}) \cup ToSet(o.preimported)
      [] c = "C11_LocalUnqualified" -> o.panicked \/ ~o.qualifies_target

Failed(r) == {c \in Conjuncts : ~Holds(c, r)}

JInit == l = 1 /\ bad = {} /\ tree = Leaf("int") /\ target = "fixt" /\ view = "types"
JNext == /\ l <= Len(Trace)
         /\ l' = l + 1
         /\ LET r == Trace[l]
                f == Failed(r)
            IN bad' = IF f = {} THEN bad ELSE bad \cup {[id |-> r.id, failed |-> f]}
         /\ UNCHANGED <<tree, target, view>>

Verdict == l = Len(Trace) + 1 =>
             PrintT(<<"VERDICT", ToJson([consumed |-> l - 1, bad |-> bad, stats |-> [x |-> 0]])>>)
=============================================================================
