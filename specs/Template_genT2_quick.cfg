CONSTANTS MaxLen = 5
 Alphabet = {97, 98, 64, 39, 55}
INIT GenInitT
NEXT GenNextT
INVARIANT EmitCase
CHECK_DEADLOCK FALSE
