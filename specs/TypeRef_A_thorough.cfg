CONSTANTS Depth = 3
 Width = 2
 LeafIds = {"int", "pA", "abcD", "hv2E", "self"}
INIT GenInit
NEXT GenNext
INVARIANT DesignRoundTrip DesignPrintParse DesignSplit
CHECK_DEADLOCK FALSE
