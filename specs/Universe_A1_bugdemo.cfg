CONSTANTS Objs <- MCObjs
 ScopeFilter = FALSE
 DagPkgs <- MCDagPkgs
 DagImports <- MCDagImports
 DagRoots = {"a"}
 CreateAfterDeps = TRUE
 Features <- MCFeatures
 MaxFeatures = 0
INIT TInit1
NEXT TNext1
INVARIANT C13_TablesAreScopeView
CHECK_DEADLOCK FALSE
