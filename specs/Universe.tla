------------------------------ MODULE Universe ------------------------------
(* pkg/types/load.go (Load, register) and pkg/types/package.go (newPkg tables, MethodsOf, Imports, LocateInPackage,
   SourceDir)  -- property C13.

   Loop A, machine 1 (tables):  a package is a set of declared objects [id, name, kind, scope]; newPkg visits
       TypesInfo.Defs - a Go map - in an ARBITRARY order and enters each object that passes the filter into a table
       keyed by name. The tables must equal the package-scope view whatever the order; with the package-scope
       filter they do, without it (ScopeFilter = FALSE) TLC shows the order-dependent counterexample.
   Loop A, machine 2 (registration): packages form an import DAG; register(p) is a DFS that visits p's imports in
       arbitrary (map) order. Imports() of a package must resolve every import path to the registered Package: it
       does iff the package object is created after its imports were registered (CreateAfterDeps).
   Loop B: every selection of up to MaxFeatures source features (shadowing local types, type parameters named like
       package-level types, generic receivers, grouped declarations, init / blank functions, imports, a module behind a
       replace directive ...) is one
       synthetic package; the real dependency closure of gengo's own module is replayed as well.                 *)
EXTENDS Naturals, Sequences, FiniteSets, TLC, Json

CONSTANTS Objs,            \* machine 1: set of [id, name, kind, scope] ; scope \in {"pkg", "local", "typeparam"}
          ScopeFilter,     \* BOOLEAN
          DagPkgs, DagImports, DagRoots, CreateAfterDeps,     \* machine 2
          Features, MaxFeatures                               \* Loop B

(* ---------------------------------------------------------------- machine 1: filling the tables *)
VARIABLES remaining, table

Passes(o) == o.kind \in {"type", "const", "func"} /\ (~ScopeFilter \/ o.scope = "pkg")
ScopeView == [k \in {"type", "const", "func"} |-> {o \in Objs : o.kind = k /\ o.scope = "pkg"}]

TInit == remaining = Objs /\ table = [k \in {"type", "const", "func"} |-> <<>>]
TNext == \E o \in remaining :
            /\ remaining' = remaining \ {o}
            /\ table' = IF Passes(o)
                        THEN [table EXCEPT ![o.kind] = [n \in DOMAIN @ \cup {o.name} |-> IF n = o.name THEN o ELSE @[n]]]
                        ELSE table

C13_TablesAreScopeView ==
    remaining = {} => \A k \in {"type", "const", "func"} :
                         /\ DOMAIN table[k] = {o.name : o \in ScopeView[k]}
                         /\ \A n \in DOMAIN table[k] : table[k][n] \in ScopeView[k]

(* ---------------------------------------------------------------- machine 2: DFS registration *)
VARIABLES stack, registered, imports, todoRoots
(* stack: sequence of [pkg, pending imports, created]; imports: pkg -> (path -> "nil" | "ok") *)

RInit == /\ stack = <<>> /\ registered = {} /\ imports = [p \in DagPkgs |-> <<>>] /\ todoRoots = DagRoots
Snapshot(p) == [q \in DagImports[p] |-> IF q \in registered THEN "ok" ELSE "nil"]

Push(p) == stack' = Append(stack, [pkg |-> p, pending |-> DagImports[p]])

StartRoot == /\ stack = <<>> /\ todoRoots # {}
             /\ \E p \in todoRoots :
                  /\ todoRoots' = todoRoots \ {p}
                  /\ IF p \in registered THEN UNCHANGED <<stack, imports>>
                     ELSE /\ Push(p)
                          /\ imports' = IF CreateAfterDeps THEN imports ELSE [imports EXCEPT ![p] = Snapshot(p)]
             /\ UNCHANGED registered

Top == stack[Len(stack)]
Descend == /\ stack # <<>> /\ Top.pending # {}
           /\ \E q \in Top.pending :
                LET st2 == [stack EXCEPT ![Len(stack)].pending = @ \ {q}] IN
                IF q \in registered \/ \E i \in 1..Len(stack) : stack[i].pkg = q
                THEN stack' = st2 /\ UNCHANGED imports
                ELSE /\ stack' = Append(st2, [pkg |-> q, pending |-> DagImports[q]])
                     /\ imports' = IF CreateAfterDeps THEN imports ELSE [imports EXCEPT ![q] = Snapshot(q)]
           /\ UNCHANGED <<registered, todoRoots>>
Finish == /\ stack # <<>> /\ Top.pending = {}
          /\ registered' = registered \cup {Top.pkg}
          /\ imports' = IF CreateAfterDeps THEN [imports EXCEPT ![Top.pkg] = Snapshot(Top.pkg)] ELSE imports
          /\ stack' = SubSeq(stack, 1, Len(stack) - 1)
          /\ UNCHANGED todoRoots
RNext == StartRoot \/ Descend \/ Finish

C13_ImportsResolved == (stack = <<>> /\ todoRoots = {}) =>
                          \A p \in registered : \A q \in DagImports[p] : q \in DOMAIN imports[p] /\ imports[p][q] = "ok"

(* ---------------------------------------------------------------- Loop B: feature selections *)
VARIABLE chosen
GenInit == chosen = {}
GenNext == Cardinality(chosen) < MaxFeatures /\ \E f \in Features : f \notin chosen /\ chosen' = chosen \cup {f}
EmitCase == PrintT(<<"CASE", ToJson([fam |-> "universe", case |-> [kind |-> "synthetic", features |-> chosen]])>>)

(* the three machines live in one module; each configuration parks the variables of the others *)
Park1 == stack = <<>> /\ registered = {} /\ imports = <<>> /\ todoRoots = {} /\ chosen = {}
Park2 == remaining = {} /\ table = <<>> /\ chosen = {}
Park3 == remaining = {} /\ table = <<>> /\ stack = <<>> /\ registered = {} /\ imports = <<>> /\ todoRoots = {}
TInit1 == TInit /\ Park1
TNext1 == TNext /\ UNCHANGED <<stack, registered, imports, todoRoots, chosen>>
RInit2 == RInit /\ Park2
RNext2 == RNext /\ UNCHANGED <<remaining, table, chosen>>
GenInit3 == GenInit /\ Park3
GenNext3 == GenNext /\ UNCHANGED <<remaining, table, stack, registered, imports, todoRoots>>
=============================================================================
