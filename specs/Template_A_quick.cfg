CONSTANTS MaxLen = 5
 Alphabet = {97, 98, 95, 64, 39, 10, 32, 233}
INIT GenInitT
NEXT GenNextT
INVARIANT DesignScannerAgrees DesignNoRescan
CHECK_DEADLOCK FALSE
