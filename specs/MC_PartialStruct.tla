-------------------------- MODULE MC_PartialStruct --------------------------
EXTENDS PartialStruct
MCTagClasses == <<"none", "json", "dotted", "odd">>
=============================================================================
