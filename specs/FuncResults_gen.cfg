CONSTANTS Funcs <- MCFuncs
 NRes = 2
 Calls <- MCCalls
 MarkEveryIndex = TRUE
 Shapes <- MCShapes
INIT GenInit
NEXT GenNone
INVARIANT EmitCase
CHECK_DEADLOCK FALSE
