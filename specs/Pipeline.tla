------------------------------ MODULE Pipeline ------------------------------
(* pkg/gengo/context.go (Execute, pkgExecute, pkgChanged), pkg/gengo/genfile.go (WriteToFile),
   pkg/types/load.go (directory hashes), pkg/sumfile  -- properties C02 C04 C05 C07 C08.

   STATE = the file system of one Go module, abstractly:
     src[p]    version of package p's hand-written sources
     user[p]   "no" / "yes": a user / look-alike file (zz_generatedx.go, zz_generated, user.go) is present in p's directory;
               "unreadable": an entry that can be listed but not read (an editor's lock file = a dangling symbolic link) is
               present - the directory's hash cannot be computed
     out[p][g] "absent" or the content id of <base>.<g>.go  (g ranges over the generators of the model and the
               retired generator "old", whose file is a stale output)
     sum       gengo.sum: [present, m : package -> recorded hash | "none", canon : the text is exactly one sorted
               "path hash" line per entry (damage can leave every entry readable and the text a mess)]
   plus run control (pc, args, queue, cur, ...) while Execute is in progress.

   The directory hash is structural: it covers everything below the directory - nested package directories
   included and, for a package in the module root, every other package; HashCoversSum says whether it also
   covers gengo.sum itself.

   One action per critical section of Execute/pkgExecute. Real nondeterminism is modelled as such: the order in
   which kept genfiles are written (sync.Map.Range) and stale files removed (map iteration), and - lazily, at
   each callback - whether a fault (generator error, unparseable rendering, process death) strikes there.     *)
EXTENDS PipelineBase, TLC

CONSTANTS Pkgs,           \* set of package names
          Order,          \* the packages sorted by import path (sequence)
          Gens,           \* generator names of the model (sequence: registration order)
          Dep,            \* package -> set of local packages it imports
          Closure(_),     \* set of packages -> its closure under Dep
          Under,          \* package -> set of packages whose directories lie below its directory
          RootPkg,        \* the package in the module root, or "none"
          HashCoversSum,  \* BOOLEAN: the root package's hash covers gengo.sum (the code before the fix)
          SaveAlways,     \* BOOLEAN: a successful All run always rewrites gengo.sum (the code); FALSE = only when the mapping changed
          SkipUnknown,    \* BOOLEAN: FALSE = a directory whose hash is unknown is never "unchanged" (the statement; the code since the
                          \* fix); TRUE = unknown compares equal to "no entry" (the code before the fix)
          KeepAfterDefers,\* BOOLEAN: whether a generator's file is kept is decided after its deferred callbacks ran (the code)
          BehChoices,     \* set of behaviour configurations [Pkgs -> [gens -> behaviour]]
          ArgsMenu,       \* set of run arguments [all, force, entry, gens]
          MaxRuns, MaxEnv, MaxSrc, ConvergeBound

GenSet == {Gens[i] : i \in 1..Len(Gens)}
AllGen == GenSet \cup {"old"}
Absent == <<"absent">>
None == <<"none">>
UserStates == {"no", "yes", "unreadable"}

Content(p, g, b) == <<"content", p, g, b>>        \* what generator g with behaviour b writes for p (a function of p's types only)

VARIABLES src, user, out, sum,                       \* the file system
          beh,                                       \* generator behaviour (constant during a behaviour)
          pc, args, queue, cur, gi, ci, kept, badg, written, staleSet,
          hload, prev, faulted, regen, snap0,        \* run control / history
          runs, envs, quiet, lastRegen, lastChanged, failInfo

fs == <<src, user, out, sum>>
vars == <<src, user, out, sum, beh, pc, args, queue, cur, gi, ci, kept, badg, written, staleSet, hload, prev, faulted, regen,
          snap0, runs, envs, quiet, lastRegen, lastChanged, failInfo>>

FS == [src |-> src, user |-> user, out |-> out, sum |-> sum]

(* ---------------------------------------------------------------- directory hashes *)
Own(p) == <<src[p], user[p], out[p]>>
Hashable(p) == user[p] # "unreadable" /\ \A q \in Under[p] : user[q] # "unreadable"
HashOf(p) == IF Hashable(p) THEN <<Own(p), [q \in Under[p] |-> Own(q)], IF p = RootPkg /\ HashCoversSum THEN <<sum>> ELSE <<"-">>>>
             ELSE None

NoSum == [present |-> FALSE, m |-> [p \in Pkgs |-> None], canon |-> TRUE]

(* ---------------------------------------------------------------- selection *)
(* Closure(S): S and everything reachable through Dep. It is a parameter of the module (an operator constant) so that the
   module itself is free of recursive definitions and can be read by the proof system; the model-checking configurations
   supply the recursive definition (MC_Pipeline!MCClosure), the proofs need nothing about it. *)
Local(a) == Closure(a.entry)                          \* packages of the module that get loaded
Selected(a) == IF a.all THEN Local(a) ELSE a.entry
InOrder(S) == SelectSeq(Order, LAMBDA p : p \in S)

Cached(p) == args.all /\ ~args.force /\ prev.present /\ (SkipUnknown \/ prev.m[p] # None) /\ prev.m[p] = hload[p]

(* what a complete, fault-free processing of p must leave behind, as a function of p's behaviour, the
   generator list and p's own previous outputs ONLY (C04 C05 C07) *)
ExpectedOut(p, a, before) ==
    [g \in AllGen |->
        IF g \in {a.gens[i] : i \in 1..Len(a.gens)}
        THEN IF Rendered(beh[p][g]) THEN Content(p, g, beh[p][g])
             ELSE IF Ignored(beh[p][g]) THEN before.out[p][g]
             ELSE Absent
        ELSE Absent]

RenderedByTypes(b) == Rendered(b) /\ b # "defer_only"      \* something was rendered before the deferred callbacks ran

(* ---------------------------------------------------------------- initial state *)
Init == /\ src = [p \in Pkgs |-> 0] /\ user = [p \in Pkgs |-> "no"]
        /\ out = [p \in Pkgs |-> [g \in AllGen |-> Absent]]
        /\ sum = NoSum
        /\ beh \in BehChoices
        /\ pc = "idle" /\ args = [all |-> FALSE, force |-> FALSE, entry |-> {}, gens |-> <<>>]
        /\ queue = <<>> /\ cur = "none" /\ gi = 0 /\ ci = 0 /\ kept = {} /\ badg = {} /\ written = {} /\ staleSet = {}
        /\ hload = [p \in Pkgs |-> None] /\ prev = NoSum /\ faulted = FALSE /\ regen = {}
        /\ snap0 = [src |-> src, user |-> user, out |-> out, sum |-> sum]
        /\ runs = 0 /\ envs = 0 /\ quiet = 0 /\ lastRegen = {} /\ lastChanged = FALSE
        /\ failInfo = [kind |-> "none"]

runctl == <<args, queue, cur, gi, ci, kept, badg, written, staleSet, hload, prev, faulted, regen, snap0>>
counters == <<runs, envs, quiet, lastRegen, lastChanged, failInfo>>

(* ---------------------------------------------------------------- environment (only between runs) *)
EnvStep == pc = "idle" /\ envs < MaxEnv /\ envs' = envs + 1 /\ quiet' = 0 /\ pc' = pc /\ beh' = beh
           /\ UNCHANGED <<runctl, runs, lastRegen, lastChanged, failInfo>>

EditSrc(p)    == EnvStep /\ src[p] < MaxSrc /\ src' = [src EXCEPT ![p] = @ + 1] /\ UNCHANGED <<user, out, sum>>
ToggleUser(p) == EnvStep /\ (\E v \in UserStates \ {user[p]} : user' = [user EXCEPT ![p] = v]) /\ UNCHANGED <<src, out, sum>>
(* a file under the name of a generator that still runs: left by an earlier version of it, restored from a backup ... *)
PlantPrev(p, g) == EnvStep /\ out[p][g] # <<"planted", p, g>> /\ out' = [out EXCEPT ![p][g] = <<"planted", p, g>>] /\ UNCHANGED <<src, user, sum>>
PlantStale(p) == EnvStep /\ out[p]["old"] = Absent /\ out' = [out EXCEPT ![p]["old"] = <<"stale", p>>] /\ UNCHANGED <<src, user, sum>>
DelOut(p, g)  == EnvStep /\ out[p][g] # Absent /\ out' = [out EXCEPT ![p][g] = Absent] /\ UNCHANGED <<src, user, sum>>
DelSum        == EnvStep /\ sum.present /\ sum' = NoSum /\ UNCHANGED <<src, user, out>>
CorruptSum(p) == EnvStep /\ sum.present /\ UNCHANGED <<src, user, out>>
                 /\ \/ sum' = [sum EXCEPT !.m[p] = None]                   \* a dropped / truncated line
                    \/ sum' = [sum EXCEPT !.m[p] = <<"bogus">>]              \* a wrong hash
                    \/ sum' = [present |-> TRUE, m |-> [q \in Pkgs |-> None], canon |-> FALSE]   \* garbage: readable, no entries
NoiseSum      == EnvStep /\ sum.present /\ sum.canon /\ sum' = [sum EXCEPT !.canon = FALSE] /\ UNCHANGED <<src, user, out>>   \* shuffled / duplicated / junk lines: every entry still readable

Env == \/ \E p \in Pkgs : EditSrc(p) \/ ToggleUser(p) \/ PlantStale(p) \/ CorruptSum(p) \/ \E g \in GenSet : DelOut(p, g) \/ PlantPrev(p, g)
       \/ DelSum \/ NoiseSum

(* ---------------------------------------------------------------- a run *)
StartRun(a) ==
    /\ pc = "idle" /\ runs < MaxRuns
    /\ args' = a
    /\ hload' = [p \in Pkgs |-> IF p \in Local(a) THEN HashOf(p) ELSE None]      \* types.Load hashes every local package
    /\ prev' = IF a.all THEN sum ELSE NoSum                                          \* errors reading gengo.sum are ignored
    /\ queue' = InOrder(Selected(a))
    /\ snap0' = FS
    /\ faulted' = FALSE /\ regen' = {} /\ cur' = "none" /\ gi' = 0 /\ ci' = 0
    /\ kept' = {} /\ badg' = {} /\ written' = {} /\ staleSet' = {}
    /\ pc' = "next"
    /\ UNCHANGED <<fs, beh, counters>>

SkipCached == /\ pc = "next" /\ queue # <<>> /\ Cached(Head(queue))
              /\ queue' = Tail(queue)
              /\ UNCHANGED <<fs, beh, pc, args, cur, gi, ci, kept, badg, written, staleSet, hload, prev, faulted, regen, snap0, counters>>

BeginPkg == /\ pc = "next" /\ queue # <<>> /\ ~Cached(Head(queue))
            /\ cur' = Head(queue) /\ gi' = 1 /\ ci' = 0 /\ kept' = {} /\ badg' = {} /\ written' = {}
            /\ staleSet' = {g \in AllGen : out[Head(queue)][g] # Absent}            \* the <base>.*.go files present at load time
            /\ pc' = "call"
            /\ UNCHANGED <<fs, beh, args, queue, hload, prev, faulted, regen, snap0, counters>>

(* A run ends in an observation state ("finished", "failed", "dead") in which the run control is still there for the
   invariants to read; Reap then returns to idle and resets everything, so that idle states merge. *)
EndRun(kind, info) ==
    /\ pc' = kind
    /\ failInfo' = info
    /\ UNCHANGED <<beh, runs, envs, quiet, lastRegen, lastChanged>>

Reap == /\ pc \in {"finished", "failed", "dead"}
        /\ pc' = "idle" /\ runs' = runs + 1
        /\ quiet' = IF pc = "finished" /\ args.all /\ ~args.force /\ ~faulted /\ args.entry = Pkgs /\ Len(args.gens) = Len(Gens)
                       /\ \A p \in Pkgs : hload[p] # None                       \* a directory without a hash never counts as quiet
                    THEN quiet + 1 ELSE 0
        /\ lastRegen' = regen
        /\ lastChanged' = (FS # snap0)
        /\ failInfo' = [kind |-> "none"]
        /\ args' = [all |-> FALSE, force |-> FALSE, entry |-> {}, gens |-> <<>>]
        /\ queue' = <<>> /\ cur' = "none" /\ gi' = 0 /\ ci' = 0 /\ kept' = {} /\ badg' = {} /\ written' = {} /\ staleSet' = {}
        /\ hload' = [p \in Pkgs |-> None] /\ prev' = NoSum /\ faulted' = FALSE /\ regen' = {}
        /\ snap0' = [src |-> src, user |-> user, out |-> out, sum |-> sum]
        /\ UNCHANGED <<fs, beh, envs>>

(* a callback: GenerateType for the ci-th type (ci < 2), then the deferred callbacks (ci = 2) *)
Callback ==
    /\ pc = "call" /\ gi <= Len(args.gens)
    /\ LET g == args.gens[gi] IN
       \/ (* no fault here *)
          /\ IF ci < 2 THEN ci' = ci + 1 /\ UNCHANGED <<gi, kept, pc>>
             ELSE /\ kept' = IF (IF KeepAfterDefers THEN Rendered(beh[cur][g]) ELSE RenderedByTypes(beh[cur][g])) \/ Ignored(beh[cur][g]) \/ g \in badg
                            THEN kept \cup {g} ELSE kept
                  /\ ci' = 0 /\ gi' = gi + 1
                  /\ pc' = IF gi = Len(args.gens) THEN "write" ELSE "call"
          /\ UNCHANGED <<fs, beh, args, queue, cur, badg, written, staleSet, hload, prev, faulted, regen, snap0, counters>>
       \/ (* the generator (or a deferred callback) returns an error: Execute fails, nothing of cur was written *)
          /\ ~faulted
          /\ EndRun("failed", [kind |-> "err", pkg |-> cur, gen |-> g])
          /\ UNCHANGED <<fs, runctl>>
       \/ (* the process dies inside the callback *)
          /\ ~faulted
          /\ EndRun("dead", [kind |-> "die", pkg |-> cur, gen |-> g])
          /\ UNCHANGED <<fs, runctl>>
       \/ (* the generator renders something unparseable and returns normally *)
          /\ ~faulted /\ ci < 2
          /\ faulted' = TRUE /\ badg' = badg \cup {g} /\ ci' = ci + 1
          /\ UNCHANGED <<fs, beh, pc, args, queue, cur, gi, kept, written, staleSet, hload, prev, regen, snap0, counters>>

(* WriteToFile for one kept genfile, in arbitrary order; parse happens BEFORE the file is opened *)
WriteOne ==
    /\ pc = "write" /\ kept \ written # {}
    /\ \E g \in kept \ written :
         IF g \in badg
         THEN /\ EndRun("failed", [kind |-> "syntax", pkg |-> cur, gen |-> g])
              /\ UNCHANGED <<fs, runctl>>
         ELSE /\ out' = IF Rendered(beh[cur][g]) THEN [out EXCEPT ![cur][g] = Content(cur, g, beh[cur][g])] ELSE out
              /\ written' = written \cup {g} /\ staleSet' = staleSet \ {g}
              /\ UNCHANGED <<src, user, sum, beh, pc, args, queue, cur, gi, ci, kept, badg, hload, prev, faulted, regen, snap0, counters>>

WritesDone == /\ pc = "write" /\ kept \ written = {} /\ pc' = "remove"
              /\ UNCHANGED <<fs, beh, runctl, counters>>

RemoveOne == /\ pc = "remove" /\ staleSet # {}
             /\ \E g \in staleSet : out' = [out EXCEPT ![cur][g] = Absent] /\ staleSet' = staleSet \ {g}
             /\ UNCHANGED <<src, user, sum, beh, pc, args, queue, cur, gi, ci, kept, badg, written, hload, prev, faulted, regen, snap0, counters>>

EndPkg == /\ pc = "remove" /\ staleSet = {}
          /\ regen' = regen \cup {cur} /\ queue' = Tail(queue) /\ pc' = "next"
          /\ UNCHANGED <<fs, beh, args, cur, gi, ci, kept, badg, written, staleSet, hload, prev, faulted, snap0, counters>>

AllDone == /\ pc = "next" /\ queue = <<>>
           /\ pc' = IF args.all THEN "save" ELSE "finish"
           /\ UNCHANGED <<fs, beh, runctl, counters>>

SaveSum == /\ pc = "save"
           /\ sum' = IF SaveAlways \/ ~sum.present \/ sum.m # hload
                     THEN [present |-> TRUE, m |-> hload, canon |-> TRUE]         \* hashes AS LOADED, one entry per local package
                     ELSE sum
           /\ pc' = "finish"
           /\ UNCHANGED <<src, user, out, beh, runctl, counters>>

Finish == /\ pc = "finish" /\ EndRun("finished", [kind |-> "none"]) /\ UNCHANGED <<fs, runctl>>

Run == SkipCached \/ BeginPkg \/ Callback \/ WriteOne \/ WritesDone \/ RemoveOne \/ EndPkg \/ AllDone \/ SaveSum \/ Finish \/ Reap

Next == Env \/ (\E a \in ArgsMenu : StartRun(a)) \/ Run
Spec == Init /\ [][Next]_vars

(* ================================================================ properties *)
InRun == pc # "idle"
Ended == pc \in {"finished", "failed", "dead"}

(* C07: a run never touches sources, user files, or outputs of a package other than the one being processed;
        gengo.sum only in the save step of an All run; non-selected packages are byte-identical afterwards *)
C07_InputsUntouched    == InRun => (src = snap0.src /\ user = snap0.user)
C07_OnlyCurrentPkg     == [][(InRun /\ ~Ended) => \A p \in Pkgs : out'[p] # out[p] => (p = cur /\ p \in Selected(args))]_vars
C07_SumOnlyAtSave      == [][(InRun /\ sum' # sum) => (pc = "save" /\ args.all)]_vars
C07_NonSelectedUntouched == Ended => \A p \in Pkgs \ Selected(args) : out[p] = snap0.out[p]
(* C07 / C04 / C05: within a fully processed package a generator's file exists iff it rendered, stale files are gone,
        ErrIgnore without rendering keeps the previous file - whatever the write / remove order, whichever other
        packages ran: ExpectedOut mentions p's own behaviour and previous outputs only *)
C07_ExistsIffRendered  == (InRun /\ ~Ended) => \A p \in regen : out[p] = ExpectedOut(p, args, snap0)
C04_OutputIsFunctionOfInput == pc = "finished" => \A p \in regen : out[p] = ExpectedOut(p, args, snap0)

(* C02: failure or death never rewrites gengo.sum and never touches the culprit's previous file *)
C02_SumUntouchedOnFailure == pc \in {"failed", "dead"} => sum = snap0.sum
C02_CulpritFileUntouched  == pc \in {"failed", "dead"} => out[failInfo.pkg][failInfo.gen] = snap0.out[failInfo.pkg][failInfo.gen]
C02_SumUntouchedWhileRunning == (InRun /\ pc \notin {"finish", "finished"}) => sum = snap0.sum
(* the macro view used by the trace judge: after an unparseable rendering the culprit's file is untouched, files of
   sibling generators are either untouched or the expected ones *)
FineRefinesMacro == (pc = "failed" /\ failInfo.kind = "syntax") =>
                       LET p == failInfo.pkg IN
                       \A g \in AllGen : \/ out[p][g] = snap0.out[p][g]
                                         \/ (g # failInfo.gen /\ out[p][g] = ExpectedOut(p, args, snap0)[g])

(* C08 *)
C08_SkipOnlyIfUnchanged == [][(pc = "next" /\ pc' = "next" /\ queue' # queue /\ regen' = regen) =>
                                 (~args.force /\ prev.present /\ prev.m[Head(queue)] # None /\ prev.m[Head(queue)] = HashOf(Head(queue)))]_vars
C08_SumAfterSuccess == (pc = "finished" /\ args.all) =>
                          (sum.present /\ sum.canon /\ \A p \in Pkgs : sum.m[p] = IF p \in Local(args) THEN hload[p] ELSE None)
C08_Converges == quiet >= ConvergeBound => (lastRegen = {} /\ ~lastChanged)
=============================================================================
