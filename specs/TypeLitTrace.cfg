CONSTANTS Depth = 1
 Leaves = {"int"}
 Ctors = {"ptr", "slice", "array3", "array0", "chan", "mapS", "mapK", "struct1", "struct2", "struct3"}
 Targets = {"fixt", "fixt2", "clash-pre", "dotted"}
 Views = {"types"}
INIT JInit
NEXT JNext
INVARIANT Verdict
CHECK_DEADLOCK FALSE
