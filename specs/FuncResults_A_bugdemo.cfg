CONSTANTS Funcs <- MCFuncs
 NRes = 2
 Calls <- MCCalls
 MarkEveryIndex = FALSE
 Shapes <- MCShapes
INIT AInitA
NEXT ANextA
INVARIANT C14_Terminates
CHECK_DEADLOCK FALSE
