----------------------------- MODULE RuntimeDoc -----------------------------
(* devpkg/runtimedocgen  -- property C16: the generated RuntimeDoc methods return the source documentation at run time.

   A case is one named type: its kind, the line classes of its doc comment and, for structs, a field pattern.
   Line classes: plain, quotes, backslash, backquote, percent (%v %%), atname (@name inside the line), unicode, blank
   (an empty // line, interior only), namefirst (the line starts with the type's own name), namedouble (... and the text after
   the name starts with the name again), tagplus (+k=v) and tagat
   (@k v) - the last two are tag lines and never part of the documentation; colon / goword: ordinary text that starts like a
   directive ("host:port ...", "go: ...").
   The harness writes real Go source for the case (recording the text of every line, and that text with a leading type
   name removed), runs the real generator through gengo, compiles the package with a probe program and records what
   RuntimeDoc(...) answers. The specification computes what it must answer from the recorded source lines.          *)
EXTENDS Naturals, Sequences, FiniteSets, TLC, Json

CONSTANTS Kinds, DocPatterns, FieldPatterns, FieldDocPatterns

IsTagClass(c) == c \in {"tagplus", "tagat"}
StructKinds == {"struct", "genericStruct"}

(* doc lines of a declaration: non-tag lines in order; the first of them with the declaration's own name removed *)
DocOf(lines) ==
    LET idx == SelectSeq([i \in 1..Len(lines) |-> i], LAMBDA i : ~IsTagClass(lines[i].class))
    IN [k \in 1..Len(idx) |-> IF k = 1 THEN lines[idx[k]].stripped ELSE lines[idx[k]].text]

(* covered = exported, not an interface and, for structs, having an exported field *)
Covered(cs) == cs.exported /\ cs.kind # "interface" /\
               (cs.kind \in StructKinds => \E i \in 1..Len(cs.fields) : cs.fields[i].exported)

(* fields that are listed: exported, not embedded, not of anonymous or empty struct type *)
Listed(f) == f.exported /\ f.embedded = "no" /\ f.ftype \notin {"anonStruct", "emptyNamed"}

VARIABLES kind, docpat, fieldpat, fdocpat
GenInit == /\ kind \in Kinds /\ docpat \in DocPatterns
           /\ IF kind \in StructKinds THEN fieldpat \in FieldPatterns /\ fdocpat \in FieldDocPatterns
              ELSE fieldpat = "none" /\ fdocpat = <<>>
           /\ (kind \in StructKinds => Len(docpat) <= 1)          \* keep the struct space small: field patterns vary instead
GenNone == FALSE /\ UNCHANGED <<kind, docpat, fieldpat, fdocpat>>

EmitCase == PrintT(<<"CASE", ToJson([fam |-> "runtimedoc", case |-> [kind |-> kind, doc |-> docpat, fieldpat |-> fieldpat, fdoc |-> fdocpat]])>>)
=============================================================================
