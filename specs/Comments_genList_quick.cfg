CONSTANTS MaxLen = 0
 Alphabet = {32, 43, 64, 61, 107, 118}
 Kinds = {"B", "C", "G", "K", "D", "T", "M"}
 Contexts = {"top", "type", "const", "var", "struct"}
 TrailingInLeading = FALSE
INIT GenInitList
NEXT GenNone
INVARIANT EmitCase
CHECK_DEADLOCK FALSE
