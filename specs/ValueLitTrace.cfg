CONSTANTS Shapes = {"leaf", "slice2", "array2", "mapS", "emptySlice", "nilSlice", "emptyMap", "nilMap", "sliceOfSlice", "mapOfSlice", "ptr", "ptrSlice", "ptrMap", "sliceOfPtr", "mapOfPtr", "ptrStruct", "mapKey", "genericV", "outerPS", "outerPI", "outerInX", "outerPInX", "structAN", "outerPAI", "outerF32", "outerR", "outerNamed", "outerU8", "outerI64", "outerZero", "outerPInZero", "outerMSZero", "outerSAZero", "outerAll", "mapTwoPkgs", "crossName", "crossB", "crossPBZero", "crossSBZero", "crossABZero", "crossAB", "crossMBZero", "crossBS", "crossEmpty", "chainDeep"}
INIT JInit
NEXT JNext
INVARIANT Verdict
CHECK_DEADLOCK FALSE
