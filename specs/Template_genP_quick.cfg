CONSTANTS MaxLen = 4
 Alphabet = {0}
INIT GenInitP
NEXT GenNone
INVARIANT EmitCase
CHECK_DEADLOCK FALSE
