--------------------------- MODULE GenFileTrace ---------------------------
(* Loop C for C01 and the written-file side of C03. *)
EXTENDS GenFile, IOUtils

Trace == ndJsonDeserialize(IOEnv.TRACE)
VARIABLES l, bad

Conjuncts == {"C01_ExecuteOK", "C01_Written", "C01_Parses", "C01_HeaderNamesGenerator", "C01_PackageClause", "C01_DeclsInOrder", "C01_OnlyFormatting",
              "C01_GofmtFixedPoint", "C01_GofumptFixedPoint", "C03_ImportsExact", "C03_ImportNamesValidDistinct", "C03_Compiles"}

ToSet(s) == {s[i] : i \in 1..Len(s)}
Plain(fs) == [i \in 1..Len(fs) |-> [kind |-> fs[i].kind, noise |-> fs[i].noise]]

Holds(c, r) ==
    LET o == r.obs
        cs == r.case
        ok == o.err = "" /\ o.written /\ o.parses
    IN CASE c = "C01_ExecuteOK"                -> o.err = ""
         [] c = "C01_Written"                  -> o.err # "" \/ o.written
         [] c = "C01_Parses"                   -> ~(o.err = "" /\ o.written) \/ o.parses
         [] c = "C01_HeaderNamesGenerator"     -> ~ok \/ o.header_names_gen
         [] c = "C01_PackageClause"            -> ~ok \/ o.pkg_name = o.want_pkg_name
         [] c = "C01_DeclsInOrder"             -> ~ok \/ o.decl_names = ExpNames(Plain(cs.frags), 1)
         [] c = "C01_OnlyFormatting"           -> ~ok \/ o.same_modulo_formatting
         [] c = "C01_GofmtFixedPoint"          -> ~ok \/ o.gofmt_fixed
         [] c = "C01_GofumptFixedPoint"        -> ~ok \/ o.gofumpt_fixed
         [] c = "C03_ImportsExact"             -> ~ok \/ ToSet(o.import_paths) = ExpImportsOf(cs.frags)
         [] c = "C03_ImportNamesValidDistinct" -> ~ok \/ (o.import_names_ok /\ Cardinality(ToSet(o.import_names)) = Len(o.import_names))
         [] c = "C03_Compiles"                 -> ~ok \/ o.compile_errors = <<>>

Failed(r) == {c \in Conjuncts : ~Holds(c, r)}

JInit == l = 1 /\ bad = {} /\ frags = <<>> /\ mode = "none" /\ module = "-"
JNext == /\ l <= Len(Trace)
         /\ l' = l + 1
         /\ LET r == Trace[l]
                f == Failed(r)
            IN bad' = IF f = {} THEN bad ELSE bad \cup {[id |-> r.id, failed |-> f]}
         /\ UNCHANGED gvars

Verdict == l = Len(Trace) + 1 =>
             PrintT(<<"VERDICT", ToJson([consumed |-> l - 1, bad |-> bad, stats |-> [x |-> 0]])>>)
=============================================================================
