CONSTANTS MaxLen = 5
 Alphabet = {0}
INIT GenInitC
NEXT GenNone
INVARIANT EmitCase
CHECK_DEADLOCK FALSE
