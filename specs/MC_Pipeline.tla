---------------------------- MODULE MC_Pipeline ----------------------------
(* Model configurations of Pipeline.tla (function-valued constants cannot be written in a .cfg). *)
EXTENDS Pipeline

RECURSIVE MCClosure(_)
MCClosure(S) == LET T == S \cup UNION {Dep[p] : p \in S} IN IF T = S THEN S ELSE MCClosure(T)

P2 == {"p", "q"}
P3 == {"p", "q", "r"}
O2 == <<"p", "q">>
O3 == <<"p", "q", "r">>
GensAB == <<"a", "b">>
NoDep2 == [x \in P2 |-> {}]
DepR == [x \in P3 |-> IF x = "r" THEN {"p"} ELSE {}]
UnderSib2 == [x \in P2 |-> {}]
UnderSib3 == [x \in P3 |-> {}]
UnderNested2 == [x \in P2 |-> IF x = "p" THEN {"q"} ELSE {}]
UnderRoot2 == [x \in P2 |-> IF x = "p" THEN {"q"} ELSE {}]

(* behaviour configurations: p varies, q renders with a and keeps quiet with b *)
BehP(pa, pb) == [x \in P2 |-> IF x = "p" THEN [a |-> pa, b |-> pb] ELSE [a |-> "render", b |-> "nothing"]]
Beh2 == {BehP("render", "render"), BehP("render", "ignore"), BehP("nothing", "ignore_render"), BehP("ignore", "render"), BehP("defer_only", "nothing")}
Beh2Small == {BehP("render", "ignore")}
Beh2Defer == {BehP("defer_only", "render")}
Beh3 == {[x \in P3 |-> [a |-> "render", b |-> IF x = "q" THEN "ignore" ELSE "nothing"]]}

A(all, force, entry, gens) == [all |-> all, force |-> force, entry |-> entry, gens |-> gens]
Args2 == {A(TRUE, FALSE, P2, GensAB), A(TRUE, TRUE, P2, GensAB), A(TRUE, FALSE, {"p"}, GensAB), A(FALSE, FALSE, {"q"}, GensAB),
          A(TRUE, FALSE, P2, <<"a">>)}
Args2Quiet == {A(TRUE, FALSE, P2, GensAB)}
Args3 == {A(TRUE, FALSE, P3, GensAB), A(TRUE, FALSE, {"r"}, GensAB), A(FALSE, FALSE, {"r"}, GensAB), A(TRUE, FALSE, {"q"}, GensAB)}
=============================================================================
