CONSTANTS Pkgs <- P3
 Order <- O3
 Gens <- GensAB
 Dep <- DepR
 Closure <- MCClosure
 Under <- UnderSib3
 RootPkg = "none"
 HashCoversSum = FALSE
 SkipUnknown = FALSE
 SaveAlways = TRUE
 KeepAfterDefers = TRUE
 BehChoices <- Beh3
 ArgsMenu <- Args3
 MaxRuns = 3
 MaxEnv = 2
 MaxSrc = 1
 ConvergeBound = 3
SPECIFICATION Spec
INVARIANT C07_InputsUntouched C07_NonSelectedUntouched C07_ExistsIffRendered C04_OutputIsFunctionOfInput
 C02_SumUntouchedOnFailure C02_CulpritFileUntouched C02_SumUntouchedWhileRunning FineRefinesMacro C08_SumAfterSuccess C08_Converges
PROPERTY C07_OnlyCurrentPkg C07_SumOnlyAtSave C08_SkipOnlyIfUnchanged
CHECK_DEADLOCK FALSE
