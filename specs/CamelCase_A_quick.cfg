CONSTANT MaxLen = 8
INIT GenInit
NEXT GenNext
INVARIANT DesignTotal DesignNonEmpty DesignLossless
CHECK_DEADLOCK FALSE
