CONSTANTS Depth = 2
 Width = 4
 LeafIds = {"int", "pA", "abcD", "hv2E", "self"}
INIT GenInit
NEXT GenNext
INVARIANT EmitCase
CHECK_DEADLOCK FALSE
