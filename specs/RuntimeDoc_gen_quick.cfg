CONSTANTS Kinds <- MCKinds
 DocPatterns <- MCDocPatternsSmall
 FieldPatterns <- MCFieldPatterns
 FieldDocPatterns <- MCFieldDocPatterns
INIT GenInit
NEXT GenNone
INVARIANT EmitCase
CHECK_DEADLOCK FALSE
