------------------------ MODULE ImportTrackerTrace ------------------------
(* Loop C for C03: each trace line is one history of references rendered through one raw namer /
   import tracker; after every step the harness logged the whole import table. The logged names
   are bound (the specification does not choose them) and every step must satisfy StepOK. *)
EXTENDS MC_ImportTracker, IOUtils

Trace == ndJsonDeserialize(IOEnv.TRACE)

VARIABLES l, bad

Conjuncts == {"C03_NoPanic", "C03_Exact", "C03_Stable", "C03_Valid", "C03_Unique", "C03_Qualifier", "C03_AskTwice"}

Table(imps) == [p \in {imps[i].path : i \in 1..Len(imps)} |->
                   LET i == CHOOSE i \in 1..Len(imps) : imps[i].path = p IN [str |-> imps[i].name, ident_ok |-> imps[i].ident_ok]]

Before(o, i) == IF i = 1 THEN Table(<<>>) ELSE Table(o.steps[i - 1].imports)

StepRes(r, i) == LET st == r.obs.steps[i] IN
                 StepOK(Before(r.obs, i), Table(st.imports), r.case.steps[i].kind, r.case.steps[i].path, r.case.self, st.text)

Holds(c, r) ==
    LET o == r.obs
        n == Len(o.steps)
    IN CASE c = "C03_NoPanic"   -> ~o.panicked /\ n = Len(r.case.steps)
         [] c = "C03_Exact"     -> \A i \in 1..n : StepRes(r, i).Exact
         [] c = "C03_Stable"    -> \A i \in 1..n : StepRes(r, i).Stable
         [] c = "C03_Valid"     -> \A i \in 1..n : StepRes(r, i).Valid
         [] c = "C03_Unique"    -> \A i \in 1..n : StepRes(r, i).Unique
         [] c = "C03_Qualifier" -> \A i \in 1..n : StepRes(r, i).Qualifier
         [] c = "C03_AskTwice"  -> \A i \in 1..n : o.steps[i].again_same

Failed(r) == {c \in Conjuncts : ~Holds(c, r)}

JInit == l = 1 /\ bad = {} /\ steps = <<>> /\ tab = <<>> /\ order = <<>>
JNext == /\ l <= Len(Trace)
         /\ l' = l + 1
         /\ LET r == Trace[l]
                f == Failed(r)
            IN bad' = IF f = {} THEN bad ELSE bad \cup {[id |-> r.id, failed |-> f]}
         /\ UNCHANGED <<steps, tab, order>>

Verdict == l = Len(Trace) + 1 =>
             PrintT(<<"VERDICT", ToJson([consumed |-> l - 1, bad |-> bad, stats |-> [x |-> 0]])>>)
=============================================================================
