------------------------------ MODULE DeepCopy ------------------------------
(* devpkg/deepcopygen + helper/copy_fields.go  -- property C17.

   Loop A: a heap model. A struct value is a tree: struct nodes by value, container nodes (slices, maps) that carry an
   IDENTITY and scalar leaves. Copy(v) must allocate a fresh identity for every container reachable through by-value
   struct nesting; then no mutation of a container of the copy (assign into, append to) can be seen through the
   original. TLC checks this for every type shape of the model and every mutation path - and finds the sharing when
   containers below nested structs are copied by assignment (DeepNested = FALSE).
   Loop B: every selection of up to MaxFields field kinds of the statement's domain is one generated struct type
   (with and without generics / the interfaces tag / type-level tagging of dependencies); the real generator runs
   through gengo, twice; the package is compiled with a reflective probe that fills a value, copies it, and reports
   nil-ness, deep equality, the alias relation of all containers and the effect of every mutation of the copy.       *)
EXTENDS Naturals, Sequences, FiniteSets, TLC, Json

CONSTANTS FieldKinds, MaxFields, Variants, DeepNested

(* ---------------------------------------------------------------- Loop A: heap model *)
(* type shapes: a struct is a sequence of fields [k, sub]: k = "scalar", "container", or "struct" (nested by value, sub = its fields) *)
Sc == [k |-> "scalar", sub |-> <<>>]
Co == [k |-> "container", sub |-> <<>>]
St(fs) == [k |-> "struct", sub |-> fs]
Shapes0 == {<<Sc>>, <<Co>>, <<Sc, Co>>, <<Co, Co>>}
Shapes1 == Shapes0 \cup {<<Co, St(s)>> : s \in Shapes0} \cup {<<St(s)>> : s \in Shapes0} \cup {<<St(s), Co>> : s \in Shapes0}
Shapes2 == Shapes1 \cup {<<St(s)>> : s \in Shapes1}

(* paths to containers: sequences of field indices *)
RECURSIVE ContainerPaths(_)
ContainerPaths(fs) ==
    UNION { IF fs[i].k = "container" THEN {<<i>>}
            ELSE IF fs[i].k = "scalar" THEN {}
            ELSE {<<i>> \o p : p \in ContainerPaths(fs[i].sub)} : i \in 1..Len(fs) }

(* identities of the original's containers are their paths tagged "o"; the copy's are tagged "c" where the copy
   allocates, "o" where it assigns the container header *)
CopyIdentity(path) == IF Len(path) = 1 \/ DeepNested THEN <<"c", path>> ELSE <<"o", path>>

VARIABLES shape, mutated        \* mutated: identities whose content was changed through the copy
AInit == shape \in Shapes2 /\ mutated = {}
AMutate == \E p \in ContainerPaths(shape) : mutated' = mutated \cup {CopyIdentity(p)} /\ UNCHANGED shape
(* the original sees a change iff one of ITS containers' identities was mutated *)
C17_OriginalUnchanged == \A p \in ContainerPaths(shape) : <<"o", p>> \notin mutated

(* ---------------------------------------------------------------- Loop B: field-kind selections *)
VARIABLES chosen, variant
GenInit == chosen = {} /\ variant \in Variants /\ shape = <<>> /\ mutated = {}
GenNext == /\ Cardinality(chosen) < MaxFields
           /\ \E f \in FieldKinds : f \notin chosen /\ chosen' = chosen \cup {f}
           /\ UNCHANGED <<variant, shape, mutated>>
(* bare type-parameter fields and instantiations need the generic variant's vocabulary *)
Valid == (("typeParam" \in chosen) => variant = "generic") /\ (variant = "generic" => "typeParam" \in chosen)
EmitCase == (chosen # {} /\ Valid) => PrintT(<<"CASE", ToJson([fam |-> "deepcopy", case |-> [fields |-> chosen, variant |-> variant]])>>)

AInitA == AInit /\ chosen = {} /\ variant = "-"
ANextA == AMutate /\ UNCHANGED <<chosen, variant>>
=============================================================================
