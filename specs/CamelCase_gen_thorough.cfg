CONSTANT MaxLen = 8
INIT GenInit
NEXT GenNext
INVARIANT EmitCase
CHECK_DEADLOCK FALSE
