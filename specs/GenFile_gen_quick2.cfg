CONSTANTS MaxFrags = 1
 Kinds = {"func", "method", "var", "const", "type", "grouped", "comment", "directive", "tmpl", "group1", "octal", "oddcomment", "initfn", "rawsplit", "retsplit", "skipref"}
 Noises = {"none"}
 FirstNoises = {"none", "leading_blank", "trailing_blank", "odd_spacing", "no_final_newline", "two_on_one", "split"}
 RefModes = {"all"}
 Modules = {"go1.18", "go1.20", "go1.21local", "go1.24.2", "ws1.24"}
INIT GenInit
NEXT GenNext
INVARIANT EmitCase
CHECK_DEADLOCK FALSE
