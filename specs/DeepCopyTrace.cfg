CONSTANTS FieldKinds = {"scalar", "str", "sliceInt", "mapStr", "structVal", "structDeep", "definedScalar", "definedMap","definedMapM", "errorField", "ifaceField", "typeParam", "genericInst", "sliceStr", "mapOfDefined", "untaggedDep", "genericNamedArg", "definedMapLate", "structWide", "structMixed", "structTwice", "identClash", "caseTwins", "structDefinedMap", "embedShadow", "manyHelpers"}
 MaxFields = 0
 Variants = {"plain", "generic", "interfaces", "typeTagged"}
 DeepNested = TRUE
INIT JInit
NEXT JNext
INVARIANT Verdict
CHECK_DEADLOCK FALSE
