CONSTANTS Goroutines = {g1, g2, g3}
 Keys = {k1, k2}
 MaxCalls = 2
 SeedOutputs = FALSE
SPECIFICATION CSpec
INVARIANT C20_ReturnsF C20_ComputedOnce C20_NoLostWaiter
PROPERTY C20_AllReturn
CHECK_DEADLOCK TRUE
