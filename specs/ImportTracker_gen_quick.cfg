CONSTANTS Paths = {"encoding/json", "a.com/json", "a.com/v1/json", "a/b", "x/a/b", "ab", "k8s.io/api/core/v1", "k8s.io/api/apps/v1", "github.com/json-iterator/go", "a.com/x/type", "a.com/x/1pkg", "a.com/foo-bar", "a.com/foo_bar", "a.com/apis/foo/v1"}
 Self = "self.io/me"
 MaxSteps = 2
 LastKinds = {"ref", "expose", "typelit", "generic", "generictime"}
 AbsPaths <- MCAbsPaths
 Cand <- MCCand
 UseFallback = TRUE
INIT GenInit
NEXT GenNext
INVARIANT EmitCase
CHECK_DEADLOCK FALSE
