---------------------------- MODULE CamelCase ----------------------------
(* pkg/camelcase: Split and the six case converters (property C19).

   The input is abstracted to its sequence of rune classes
       "l" lower, "u" upper, "d" digit, "o" anything else
   (package unicode decides the class of a concrete rune; the harness records it).
   The module is used three ways (DESIGN.md section 2):
     Loop A  the scanner-shaped model below is total, lossless and produces no empty word for
             EVERY class string up to MaxLen (invariants over the generation machine);
     Loop B  every reachable state of the generation machine is one test input;
     Loop C  CamelCaseTrace judges what camelcase.Split really returned.                       *)
EXTENDS Naturals, Sequences, TLC, Json

CONSTANT MaxLen

Classes == {"l", "u", "d", "o"}

VARIABLE cls          \* the class string built so far (generation machine)

GenInit == cls = <<>>
GenNext == Len(cls) < MaxLen /\ \E c \in Classes : cls' = Append(cls, c)

--------------------------------------------------------------------------
(* Scanner-shaped model: one step per rune. `last` is the class of the previous rune,
   "none" before the first one. A rune joins the current group iff it has the class of the
   previous rune, or is a digit directly after a letter. The model has an explicit PANIC result
   for "join the current group when there is no group"; C19 says it must be unreachable. *)

Joins(c, last) == c = last \/ (c = "d" /\ last \in {"u", "l"})

RECURSIVE ScanFrom(_, _, _)
ScanFrom(rest, groups, last) ==
    IF rest = <<>> THEN [ok |-> TRUE, g |-> groups]
    ELSE LET c == Head(rest) IN
         IF last # "none" /\ Joins(c, last)
         THEN IF groups = <<>> THEN [ok |-> FALSE, g |-> <<>>]      \* PANIC
              ELSE ScanFrom(Tail(rest), [groups EXCEPT ![Len(groups)] = Append(@, c)], c)
         ELSE ScanFrom(Tail(rest), Append(groups, <<c>>), c)

Scan(s) == ScanFrom(s, <<>>, "none")

(* Post pass, left to right: an upper-case group followed by a lower-case group hands its last
   rune over ("PDFL","oader" -> "PDF","Loader"). A group may become empty and is dropped at the end. *)
RECURSIVE Post(_, _)
Post(g, i) ==
    IF i >= Len(g) THEN g
    ELSE IF g[i] # <<>> /\ g[i][1] = "u" /\ g[i + 1][1] = "l"
         THEN LET moved == g[i][Len(g[i])]
                  g2 == [g EXCEPT ![i] = SubSeq(@, 1, Len(@) - 1), ![i + 1] = <<moved>> \o @]
              IN Post(g2, i + 1)
         ELSE Post(g, i + 1)

Panics(s) == ~Scan(s).ok
Words(s) == SelectSeq(Post(Scan(s).g, 1), LAMBDA w : w # <<>>)

RECURSIVE Flat(_)
Flat(ws) == IF ws = <<>> THEN <<>> ELSE Head(ws) \o Flat(Tail(ws))

Lens(s) == LET w == Words(s) IN [i \in 1..Len(w) |-> Len(w[i])]

--------------------------------------------------------------------------
(* The six converters (pkg/camelcase/naming.go) - beyond C19, which only says they are total and pure; bin/extras, family
   caseconv. A converter is Split, a filter, a per-word form and a linker:
       out = Join(linker, << form(w_k, k) : w_k the k-th KEPT word >>)
   A word is dropped iff it is ONE BYTE long and that byte, read as a rune, is graphic but neither letter nor digit
   (so "_", "-", " ", "." between words vanish, a two-byte punctuation rune does not). The forms of a word (lower, upper,
   title - Unicode case mappings) are facts the harness logs from the standard library; the model composes them.
   Camel forms: a word that is "id" in any ASCII case becomes "ID"; the first kept word of lowerCamel is lower-cased
   (before the ID rule); every other word is title-cased.                                                            *)
Convs == <<[name |-> "UPPER_SNAKE", linker |-> <<95>>, form |-> "upper"],
           [name |-> "lower_snake", linker |-> <<95>>, form |-> "lower"],
           [name |-> "UPPER-KEBAB", linker |-> <<45>>, form |-> "upper"],
           [name |-> "lower-kebab", linker |-> <<45>>, form |-> "lower"],
           [name |-> "UpperCamel",  linker |-> <<>>,   form |-> "camel"],
           [name |-> "lowerCamel",  linker |-> <<>>,   form |-> "lcamel"]>>

IsID(w) == w \in {<<73, 68>>, <<105, 100>>, <<73, 100>>, <<105, 68>>}

(* words: what Split returned (byte sequences); forms[i]: the logged facts about words[i] *)
KeptIdx(forms) == SelectSeq([i \in 1..Len(forms) |-> i], LAMBDA i : ~forms[i].drop)
FormOf(kind, w, f, k) ==
    CASE kind = "upper"  -> f.upper
      [] kind = "lower"  -> f.lower
      [] kind = "camel"  -> IF IsID(w) THEN <<73, 68>> ELSE f.title
      [] kind = "lcamel" -> IF k = 1 THEN f.lower ELSE IF IsID(w) THEN <<73, 68>> ELSE f.title

RECURSIVE JoinFrom(_, _, _, _, _)
JoinFrom(conv, words, forms, kept, k) ==
    IF k > Len(kept) THEN <<>>
    ELSE (IF k > 1 THEN conv.linker ELSE <<>>) \o FormOf(conv.form, words[kept[k]], forms[kept[k]], k)
         \o JoinFrom(conv, words, forms, kept, k + 1)
ConvExpected(conv, words, forms) == JoinFrom(conv, words, forms, KeptIdx(forms), 1)

(* Loop A for the converters, on the class level: a class string made of letters and digits only loses nothing to the
   filter (no word of it starts with another class, so every word is kept) *)
DesignConvKeepsAlnum == (\A i \in 1..Len(cls) : cls[i] # "o") => \A i \in 1..Len(Words(cls)) : Words(cls)[i][1] # "o"

--------------------------------------------------------------------------
(* Loop A: the design is total, produces non-empty words, and is lossless, for every input. *)
DesignTotal    == ~Panics(cls)
DesignNonEmpty == \A i \in 1..Len(Words(cls)) : Words(cls)[i] # <<>>
DesignLossless == Flat(Words(cls)) = cls
(* the converters drop one-rune punctuation words and join the rest: total because Split is *)

(* Loop B: one case per reachable state *)
EmitCase == PrintT(<<"CASE", ToJson([fam |-> "camel", case |-> [cls |-> cls]])>>)

GenSpec == GenInit /\ [][GenNext]_cls
==========================================================================
