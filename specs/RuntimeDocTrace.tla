-------------------------- MODULE RuntimeDocTrace --------------------------
(* Loop C for C16: one line per generated-and-probed type. *)
EXTENDS MC_RuntimeDoc, IOUtils
Trace == ndJsonDeserialize(IOEnv.TRACE)
VARIABLES l, bad

Conjuncts == {"C16_Generates", "C16_Compiles", "C16_HasMethod", "C16_TypeDoc", "C16_FieldDoc", "C16_Delegation", "C16_OtherNames"}

Ans(lines, ok) == [lines |-> lines, ok |-> ok]
None == Ans(<<>>, FALSE)

Holds(c, r) ==
    LET o == r.obs
        cs == r.conc          \* the concretised case: exported, kind, doc lines, fields with doc lines (texts as written)
        live == o.gen_err = "" /\ o.compile_errors = <<>> /\ Covered(cs) /\ o.has_method
    IN CASE c = "C16_Generates" -> o.gen_err = ""
         [] c = "C16_Compiles"  -> o.gen_err # "" \/ o.compile_errors = <<>>
         [] c = "C16_HasMethod" -> ~(o.gen_err = "" /\ o.compile_errors = <<>> /\ Covered(cs)) \/ o.has_method
         [] c = "C16_TypeDoc"   -> ~live \/ o.type_doc = Ans(DocOf(cs.doc), TRUE)
         [] c = "C16_FieldDoc"  -> ~live \/ \A i \in 1..Len(cs.fields) :
                                       Listed(cs.fields[i]) => o.field_answers[i] = Ans(DocOf(cs.fields[i].doc), TRUE)
         (* fields of embedded (exported, covered) structs are answered by delegation *)
         [] c = "C16_Delegation" -> ~live \/ \A i \in 1..Len(cs.fields) :
                                       cs.fields[i].embedded \in {"value", "pointer"} => o.embedded_answers[i] = Ans(DocOf(cs.fields[i].inner_doc), TRUE)
         (* any other name: unknown names, unexported fields, fields of anonymous / empty struct type *)
         [] c = "C16_OtherNames" -> ~live \/ ( /\ o.unknown_answer = None
                                               /\ \A i \in 1..Len(cs.fields) :
                                                    (cs.fields[i].embedded = "no" /\ ~Listed(cs.fields[i])) => o.field_answers[i] = None )

Failed(r) == {c \in Conjuncts : ~Holds(c, r)}

JInit == l = 1 /\ bad = {} /\ kind = "scalar" /\ docpat = <<>> /\ fieldpat = "none" /\ fdocpat = <<>>
JNext == /\ l <= Len(Trace)
         /\ l' = l + 1
         /\ LET r == Trace[l]
                f == Failed(r)
            IN bad' = IF f = {} THEN bad ELSE bad \cup {[id |-> r.id, failed |-> f]}
         /\ UNCHANGED <<kind, docpat, fieldpat, fdocpat>>

Verdict == l = Len(Trace) + 1 =>
             PrintT(<<"VERDICT", ToJson([consumed |-> l - 1, bad |-> bad, stats |-> [x |-> 0]])>>)
=============================================================================
