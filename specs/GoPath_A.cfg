CONSTANTS Segments = {"a", "vendor", "b.c", "x-y"}
 MaxSegs = 6
INIT GenInit
NEXT GenNext
INVARIANT DesignIdentityWithoutVendor DesignIdempotentShape
CHECK_DEADLOCK FALSE
