--------------------------- MODULE SumFileTrace ---------------------------
EXTENDS MC_SumFile, IOUtils
Trace == ndJsonDeserialize(IOEnv.TRACE)
VARIABLES l, bad
Conjuncts == {"C08_FileLines", "C08_ReadBack", "C08_LoadLenient"}

FromPairs(ps) == [p \in {ps[i][1] : i \in 1..Len(ps)} |-> ps[CHOOSE i \in 1..Len(ps) : ps[i][1] = p /\ \A j \in (i + 1)..Len(ps) : ps[j][1] # p][2]]

Holds(c, r) ==
    LET o == r.obs  cs == r.case IN
    CASE c = "C08_FileLines"   -> cs.side # "save" \/ (~o.panicked /\ o.err = "" /\ o.file_lines = Bytes(FromPairs(cs.pairs)) /\ o.exact_format)
      [] c = "C08_ReadBack"    -> cs.side # "save" \/ (~o.panicked /\ FromPairs(o.loaded) = FromPairs(cs.pairs) /\ Len(o.loaded) = Len(cs.pairs))
      [] c = "C08_LoadLenient" -> cs.side # "load" \/ (~o.panicked /\ o.err = "" /\ FromPairs(o.loaded) = Load(cs.lines))

Failed(r) == {c \in Conjuncts : ~Holds(c, r)}
JInit == l = 1 /\ bad = {} /\ side = "save" /\ m = <<>> /\ lines = <<>>
JNext == /\ l <= Len(Trace) /\ l' = l + 1
         /\ LET r == Trace[l]  f == Failed(r) IN bad' = IF f = {} THEN bad ELSE bad \cup {[id |-> r.id, failed |-> f]}
         /\ UNCHANGED <<side, m, lines>>
Verdict == l = Len(Trace) + 1 => PrintT(<<"VERDICT", ToJson([consumed |-> l - 1, bad |-> bad, stats |-> [x |-> 0]])>>)
=============================================================================
