------------------------- MODULE MC_ImportTracker -------------------------
(* Loop A configuration of the code-shaped candidate search: an abstract candidate table with the
   collision patterns of real paths (a/b, x/a/b, ab; a keyword segment; a digit-leading only segment). *)
EXTENDS ImportTracker

MCAbsPaths == {"a/b", "x/a/b", "ab", "x/type", "1pkg", "y/b"}
MCCand == [p \in MCAbsPaths |->
             CASE p = "a/b"    -> <<"b", "ab">>
               [] p = "x/a/b"  -> <<"b", "ab", "xab">>
               [] p = "ab"     -> <<"ab">>
               [] p = "x/type" -> <<"!bad", "xtype">>
               [] p = "1pkg"   -> <<"!bad">>
               [] p = "y/b"    -> <<"b", "yb">>]
MCPaths == {"-"}
=============================================================================
