CONSTANT MaxLen = 6
INIT GenInit
NEXT GenNext
INVARIANT EmitCase
CHECK_DEADLOCK FALSE
