--------------------------- MODULE RegistryTrace ---------------------------
(* Loop C for the registry: one line per history; obs.answers[k] is what the real registry answered to operation k
   (register: <<>>; get: the ids in order; getall: <<name, id>> pairs in the order the map yielded them). *)
EXTENDS MC_Registry, IOUtils
Trace == ndJsonDeserialize(IOEnv.TRACE)
VARIABLES l, bad
Conjuncts == {"X_NoPanic", "X_Get", "X_GetAll"}

Holds(c, r) ==
    LET o == r.obs  h == r.case.hist IN
    CASE c = "X_NoPanic" -> ~o.panicked
      [] c = "X_Get"     -> o.panicked \/ \A k \in 1..Len(h) : h[k].op = "get" => o.answers[k] = AnswerGet(After(h, k), h[k].names)
      [] c = "X_GetAll"  -> o.panicked \/ \A k \in 1..Len(h) : h[k].op = "getall" =>
                               /\ {<<o.answers[k][i][1], o.answers[k][i][2]>> : i \in 1..Len(o.answers[k])} = AnswerAll(After(h, k))
                               /\ Len(o.answers[k]) = Cardinality(DOMAIN After(h, k))           \* each exactly once

Failed(r) == {c \in Conjuncts : ~Holds(c, r)}
JInit == l = 1 /\ bad = {} /\ hist = <<>>
JNext == /\ l <= Len(Trace) /\ l' = l + 1
         /\ LET r == Trace[l]  f == Failed(r) IN bad' = IF f = {} THEN bad ELSE bad \cup {[id |-> r.id, failed |-> f]}
         /\ UNCHANGED hist
Verdict == l = Len(Trace) + 1 => PrintT(<<"VERDICT", ToJson([consumed |-> l - 1, bad |-> bad, stats |-> [x |-> 0]])>>)
=============================================================================
