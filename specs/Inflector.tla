----------------------------- MODULE Inflector -----------------------------
(* pkg/inflector: Pluralize / Singularize  -- property C20, sequential contract.
   (The memoisation cache under concurrent callers is InflectorCache.tla.)

   <prefix><boundary><word> is inflected to <prefix><boundary><what the word alone inflects to>, for
   every irregular word of the rule tables, case style, prefix and boundary; every call is total and
   pure. The (finite) case space is the set of initial states: the state graph is the test suite. *)
EXTENDS Naturals, Sequences, FiniteSets, TLC, Json

(* ------------------------------------------------------------------ part (b): irregular words *)
IrregularPlural == <<
  <<"atlas", "atlases">>, <<"beef", "beefs">>, <<"brother", "brothers">>, <<"cafe", "cafes">>, <<"child", "children">>,
  <<"cookie", "cookies">>, <<"corpus", "corpuses">>, <<"cow", "cows">>, <<"ganglion", "ganglions">>, <<"genie", "genies">>,
  <<"genus", "genera">>, <<"graffito", "graffiti">>, <<"hoof", "hoofs">>, <<"loaf", "loaves">>, <<"man", "men">>,
  <<"money", "monies">>, <<"mongoose", "mongooses">>, <<"move", "moves">>, <<"mythos", "mythoi">>, <<"niche", "niches">>,
  <<"numen", "numina">>, <<"occiput", "occiputs">>, <<"octopus", "octopuses">>, <<"opus", "opuses">>, <<"ox", "oxen">>,
  <<"penis", "penises">>, <<"person", "people">>, <<"sex", "sexes">>, <<"soliloquy", "soliloquies">>, <<"testis", "testes">>,
  <<"trilby", "trilbys">>, <<"turf", "turfs">>, <<"potato", "potatoes">>, <<"hero", "heroes">>, <<"tooth", "teeth">>,
  <<"goose", "geese">>, <<"foot", "feet">> >>

IrregularSingular == <<
  <<"foes", "foe">>, <<"waves", "wave">>, <<"curves", "curve">>, <<"atlases", "atlas">>, <<"beefs", "beef">>,
  <<"brothers", "brother">>, <<"cafes", "cafe">>, <<"children", "child">>, <<"cookies", "cookie">>, <<"corpuses", "corpus">>,
  <<"cows", "cow">>, <<"ganglions", "ganglion">>, <<"genies", "genie">>, <<"genera", "genus">>, <<"graffiti", "graffito">>,
  <<"hoofs", "hoof">>, <<"loaves", "loaf">>, <<"men", "man">>, <<"monies", "money">>, <<"mongooses", "mongoose">>,
  <<"moves", "move">>, <<"mythoi", "mythos">>, <<"niches", "niche">>, <<"numina", "numen">>, <<"occiputs", "occiput">>,
  <<"octopuses", "octopus">>, <<"opuses", "opus">>, <<"oxen", "ox">>, <<"penises", "penis">>, <<"people", "person">>,
  <<"sexes", "sex">>, <<"soliloquies", "soliloquy">>, <<"testes", "testis">>, <<"trilbys", "trilby">>, <<"turfs", "turf">>,
  <<"potatoes", "potato">>, <<"heroes", "hero">>, <<"teeth", "tooth">>, <<"geese", "goose">>, <<"feet", "foot">> >>

Uninflected == <<"bison", "sheep", "news", "series", "species", "equipment", "information", "moose", "deer", "fish",
                 "people", "rice", "Maltese", "sea-bass", "chassis", "multimedia">>

Styles == {"lower", "UPPER", "Title"}
(* <..>: prefixes concretised by the harness: a line break; runes whose lower-case form has another byte length (U+0130, U+212A Kelvin,
   U+023A); a byte that is not valid UTF-8 *)
Prefixes == {"", "old", "x9", "Größe", "a b", "<NL>", "<IDOT>", "<KELVIN>", "<ASTROKE>", "<BADUTF8>"}
Boundaries == {" ", "-", ".", "/", "--", " - "}

VARIABLE cs     \* the sequential case under test

Table(dir) == IF dir = "plural" THEN IrregularPlural ELSE IrregularSingular

SeqCases == {[dir |-> d, kind |-> "irregular", word |-> Table(d)[i][1], expect |-> Table(d)[i][2], style |-> s, prefix |-> p,
              boundary |-> b] :
               d \in {"plural", "singular"}, i \in 1..37, s \in Styles, p \in Prefixes, b \in Boundaries}
            \cup
            {[dir |-> "singular", kind |-> "irregular", word |-> IrregularSingular[i][1], expect |-> IrregularSingular[i][2], style |-> s,
              prefix |-> p, boundary |-> b] : i \in 38..40, s \in Styles, p \in Prefixes, b \in Boundaries}
            \cup
            {[dir |-> d, kind |-> "uninflected", word |-> Uninflected[i], expect |-> Uninflected[i], style |-> s, prefix |-> p,
              boundary |-> b] :
               d \in {"plural", "singular"}, i \in 1..Len(Uninflected), s \in Styles, p \in {"", "old"}, b \in {" ", "-"}}

SInit == cs \in SeqCases
SNone == FALSE /\ cs' = cs

(* the law of C20 on recorded observations (all texts are code-point sequences):
   with a non-empty boundary in front of an irregular word, out = prefix . boundary . alone_out *)
PrefixLaw(lead, aloneOut, out) == out = lead \o aloneOut

EmitCase == PrintT(<<"CASE", ToJson([fam |-> "inflect", case |-> cs])>>)
=============================================================================
