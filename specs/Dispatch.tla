------------------------------ MODULE Dispatch ------------------------------
(* pkg/gengo/context.go: doGenerate, Doc, merge, IsGeneratorEnabled, Defer  -- property C06.

   Tag keys and generator names are sequences of ':'-separated segments, so that "is a sub-tag of" is a
   prefix test the specification can evaluate:  gengo:a  = <<"gengo","a">>,  gengo:a:b = <<"gengo","a","b">>,
   generator  a = <<"a">>,  ab = <<"ab">>,  a:b = <<"a","b">>.
   A tag set is a sequence of <<key, value>> with at most one entry per key at each level.                     *)
EXTENDS Naturals, Sequences, FiniteSets, TLC, Json

(* ---------------------------------------------------------------- effective tags and the enabling rule *)
Keys(ts) == {ts[i][1] : i \in 1..Len(ts)}
ValueOf(ts, k) == ts[CHOOSE i \in 1..Len(ts) : ts[i][1] = k][2]

(* the declaration's doc tags over the package's doc tags over the global tags: right-most wins per key *)
Effective(globals, pkgtags, decltags) ==
    [k \in Keys(globals) \cup Keys(pkgtags) \cup Keys(decltags) |->
        IF k \in Keys(decltags) THEN ValueOf(decltags, k)
        ELSE IF k \in Keys(pkgtags) THEN ValueOf(pkgtags, k)
        ELSE ValueOf(globals, k)]

IsPrefixOf(p, s) == Len(p) <= Len(s) /\ SubSeq(s, 1, Len(p)) = p

(* an effective gengo:<name> tag decides by itself (disabled iff "false"); otherwise any gengo:<name>:<sub> enables *)
Enabled(name, eff) ==
    LET key == <<"gengo">> \o name IN
    IF key \in DOMAIN eff THEN eff[key] # "false"
    ELSE \E k \in DOMAIN eff : IsPrefixOf(key, k) /\ Len(k) > Len(key)

(* ---------------------------------------------------------------- the placement lattice of one generator *)
TagA == <<"gengo", "a">>
TagAB == <<"gengo", "a", "b">>          \* a sub-tag of generator a AND the decisive tag of generator a:b
TagABX == <<"gengo", "ab", "x">>        \* a sub-tag of generator ab: says nothing about a or a:b
Placements == [none  |-> <<>>,
               bare  |-> << <<TagA, "">> >>,
               false |-> << <<TagA, "false">> >>,
               true  |-> << <<TagA, "true">> >>,
               sub   |-> << <<TagAB, "">> >>,
               both  |-> << <<TagA, "false">>, <<TagAB, "">> >>,
               subab |-> << <<TagABX, "">> >>]
PlacementNames == {"none", "bare", "false", "true", "sub", "both", "subab"}

PkgKinds == <<"defined", "generic", "alias_local", "alias_foreign">>      \* package-level declarations
(* 28 + 4 package-level declarations: every declaration-level placement x kind, named D01..D28 so that name order = index order *)
PlacementSeq == <<"none", "bare", "false", "true", "sub", "both", "subab">>
DeclName(i) == IF i < 10 THEN "D0" \o ToString(i) ELSE "D" \o ToString(i)
(* ... and two pairs without tags of their own: a declaration spanning several lines whose closing line carries a trailing comment
   with a tag line (+gengo:a / +gengo:a=false), directly followed - no blank line, no doc comment - by another declaration.
   A trailing comment documents nothing: both are decided by the package and the globals alone. *)
(* ... and one type without tags that is declared in a FILE WRITTEN BY AN EARLIER RUN (<base>.zzz.go): it is a package-scope
   defined type like any other *)
TailKinds == <<"mltrail_on", "after_ml", "mltrail_off", "after_ml", "in_generated_file">>
Decls == [i \in 1..33 |-> IF i <= 28 THEN [name |-> DeclName(i), kind |-> PkgKinds[((i - 1) % 4) + 1], place |-> PlacementSeq[((i - 1) \div 4) + 1]]
                          ELSE [name |-> DeclName(i), kind |-> TailKinds[i - 28], place |-> "none"]]

GenNames == [a |-> <<"a">>, ab |-> <<"ab">>, acb |-> <<"a", "b">>]
GenSets == { <<"a">>, <<"a", "ab">>, <<"acb", "a">>, <<"ab", "acb">> }       \* generators of one run, in registration order

CallKind(kind) == IF kind \in {"alias_local", "alias_foreign"} THEN "alias" ELSE "type"

(* expected callbacks of generator g: exactly the enabled package-level declarations, in name order *)
ExpectedFor(g, globals, pkgtags) ==
    LET idx == SelectSeq([i \in 1..Len(Decls) |-> i],
                         LAMBDA i : Enabled(GenNames[g], Effective(globals, pkgtags, Placements[Decls[i].place])))
    IN [k \in 1..Len(idx) |-> [kind |-> CallKind(Decls[idx[k]].kind), gen |-> g, type |-> Decls[idx[k]].name]]

(* (the concatenation over the generators of a run, ExpectedCalls, is defined in DispatchTrace: this module is kept free of
   recursive definitions so that the proof system can read it - specs/proofs/DispatchProof.tla) *)

(* ---------------------------------------------------------------- design-level sanity (Loop A) *)
VARIABLES gp, pp, gens

GenInit == gp \in PlacementNames /\ pp \in PlacementNames /\ gens \in GenSets
GenNone == FALSE /\ UNCHANGED <<gp, pp, gens>>

(* declaration level beats package level beats globals, for the decisive tag *)
DesignPrecedence ==
    \A d \in PlacementNames :
        LET eff == Effective(Placements[gp], Placements[pp], Placements[d]) IN
        /\ (d \in {"bare", "true"}) => Enabled(<<"a">>, eff)
        /\ (d \in {"false", "both"}) => ~Enabled(<<"a">>, eff)
        /\ (d \in {"none", "sub"} /\ pp \in {"false", "both"}) => ~Enabled(<<"a">>, eff)
        /\ (d \in {"none", "sub"} /\ pp \in {"bare", "true"}) => Enabled(<<"a">>, eff)
(* a generator whose name merely starts with "a" is never enabled by tags of a *)
DesignNoPrefixConfusion ==
    \A d \in PlacementNames : LET eff == Effective(Placements[gp], Placements[pp], Placements[d]) IN
        /\ (Enabled(<<"ab">>, eff) <=> "subab" \in {gp, pp, d})
        /\ (gp # "subab" /\ pp # "subab" /\ d = "subab" => (Enabled(<<"a">>, eff) <=> Enabled(<<"a">>, Effective(Placements[gp], Placements[pp], <<>>))))

EmitCase == PrintT(<<"CASE", ToJson([fam |-> "dispatch",
                case |-> [gp |-> gp, pp |-> pp, gens |-> gens, globals |-> Placements[gp], pkgtags |-> Placements[pp],
                          decls |-> [i \in 1..Len(Decls) |-> [name |-> Decls[i].name, kind |-> Decls[i].kind, tags |-> Placements[Decls[i].place]]]]])>>)
=============================================================================
