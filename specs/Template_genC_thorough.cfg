CONSTANTS MaxLen = 6
 Alphabet = {0}
INIT GenInitC
NEXT GenNone
INVARIANT EmitCase
CHECK_DEADLOCK FALSE
