CONSTANTS MaxLen = 6
 Alphabet = {97, 98, 95, 64, 39, 10, 32, 55}
INIT GenInitT
NEXT GenNextT
INVARIANT EmitCase
CHECK_DEADLOCK FALSE
