CONSTANTS Menu = "C04"
 MaxTail = 2
 Layouts = {"siblings", "nested", "root"}
 AllPlants = FALSE
 Lite = FALSE
 Flavours <- Flav_shadow
INIT HInit
NEXT HNext
INVARIANT EmitCase
CHECK_DEADLOCK FALSE
