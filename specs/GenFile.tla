------------------------------ MODULE GenFile ------------------------------
(* pkg/gengo/genfile.go: body buffer + import tracker, WriteToFile = header . package clause . import block . body,
   parse -> sort imports -> gofumpt -> print   -- property C01 (and the written-file side of C03).

   A generated file is abstracted to
       [gen, pkg, imports : set of paths, names : sequence of top-level declaration names]
   A fragment is one Render call: a declaration kind, a whitespace "noise" kind, and - by position and the case's
   reference mode - the foreign packages it refers to. The generation machine builds all fragment sequences in bound
   (Loop B); the specification computes the file that must come out (names in rendering order, import set = the
   packages referenced), and GenFileTrace judges the file gengo really wrote, with the formatters (gofmt, gofumpt) and
   the Go compiler as independent oracles whose verdicts are logged.                                               *)
EXTENDS Naturals, Sequences, FiniteSets, TLC, Json

CONSTANTS MaxFrags, Kinds, Noises, FirstNoises, RefModes, Modules

(* packages a fragment may refer to *)
Std == "encoding/json"  Clash == "example.com/m/dep/json"  Versioned == "example.com/m/dep/v2/util"
Renamed == "example.com/m/dep/client"      \* directory client, package clause xclient
RefsAt(mode, i) ==
    CASE mode = "none"  -> {}
      [] mode = "std"   -> IF i = 1 THEN {Std} ELSE {}
      [] mode = "clash" -> IF i = 1 THEN {Std, Clash} ELSE {Clash}
      [] mode = "all"   -> IF i = 1 THEN {Std, Clash, Versioned, "self"} ELSE {Versioned, Renamed, "self"}

(* kinds that can carry references in their text *)
CarriesRefs(k) == k \in {"func", "var", "type", "skipref"}

(* the top-level declaration names a fragment contributes, in order *)
N(p, i) == p \o ToString(i)
NamesOf(k, noise, i) ==
    LET base == CASE k = "func"      -> <<N("F", i)>>
                  [] k = "method"    -> <<N("T1.M", i)>>
                  [] k = "var"       -> <<N("V", i)>>
                  [] k = "const"     -> <<N("C", i)>>
                  [] k = "type"      -> <<N("S", i)>>
                  [] k = "grouped"   -> <<N("GA", i), N("GB", i)>>
                  [] k = "comment"   -> <<>>
                  [] k = "directive" -> <<N("D", i)>>
                  [] k = "tmpl"      -> <<N("U", i)>>      \* a template that is handed an argument (a foreign type) it never mentions
                  [] k = "group1"    -> <<N("GS", i)>>     \* a parenthesised group with a single entry
                  [] k = "octal"     -> <<N("O", i)>>      \* a legacy octal literal (gofumpt spells it 0o... from go 1.13 on)
                  [] k = "rawsplit"  -> <<N("R", i)>>      \* a raw string literal assembled by three Render calls
                  [] k = "retsplit"  -> <<N("Z", i)>>      \* `return` and its operand come from two Render calls
                  [] k = "skipref"   -> <<N("SK", i)>>     \* rendered by the generator for the package's SECOND type, which then returns ErrSkip:
                                                           \* what was rendered stays rendered (and what it refers to stays imported)
                  [] k = "initfn"    -> <<"init">>          \* func init: a file may declare any number of them, each one stays
                  [] k = "oddcomment" -> <<N("L", i)>>     \* a comment in a place where go/printer needs a second pass to settle
    IN IF noise = "two_on_one" /\ k \notin {"rawsplit", "retsplit", "skipref"} THEN base \o <<N("X", i)>> ELSE base      \* (the split kinds carry no noise)

VARIABLES frags, mode, module
gvars == <<frags, mode, module>>

GenInit == frags = <<>> /\ mode \in RefModes /\ module \in Modules
GenNext == /\ Len(frags) < MaxFrags
           /\ \E k \in Kinds : \E n \in (IF frags = <<>> THEN FirstNoises ELSE Noises) :
                frags' = Append(frags, [kind |-> k, noise |-> n])
           /\ UNCHANGED <<mode, module>>

RECURSIVE ExpNamesSel(_, _, _)
ExpNamesSel(fs, i, skip) == IF i > Len(fs) THEN <<>>
                            ELSE (IF (fs[i].kind = "skipref") = skip THEN NamesOf(fs[i].kind, fs[i].noise, i) ELSE <<>>) \o ExpNamesSel(fs, i + 1, skip)
(* the first type's declarations in rendering order, then those rendered for the second type *)
ExpNames(fs, i) == ExpNamesSel(fs, i, FALSE) \o ExpNamesSel(fs, i, TRUE)
ExpImports(fs, m) == UNION {IF CarriesRefs(fs[i].kind) THEN RefsAt(m, i) \ {"self"} ELSE {} : i \in 1..Len(fs)}
(* the import block must list exactly the foreign packages the rendered fragments refer to (recorded with each fragment) *)
ExpImportsOf(fs) == UNION {{fs[i].refs[k] : k \in 1..Len(fs[i].refs)} \ {"self"} : i \in 1..Len(fs)}

(* a genfile whose body stays empty is not written at all *)
EmitCase == frags # <<>> =>
    PrintT(<<"CASE", ToJson([fam |-> "genfile",
                             case |-> [frags |-> [i \in 1..Len(frags) |-> [kind |-> frags[i].kind, noise |-> frags[i].noise,
                                                                           refs |-> IF CarriesRefs(frags[i].kind) THEN RefsAt(mode, i) ELSE {}]],
                                       mode |-> mode, module |-> module]])>>)

(* Loop A (design sanity): the import set is monotone in the fragments, names are pairwise distinct *)
DesignDistinctNames == LET ns == ExpNames(frags, 1) IN \A i, j \in 1..Len(ns) : (i # j /\ ns[i] # "init") => ns[i] # ns[j]
DesignImportsOnlyFromCarriers == ExpImports(frags, mode) \subseteq {Std, Clash, Versioned, Renamed}
=============================================================================
