---------------------------- MODULE GoPathTrace ----------------------------
EXTENDS GoPath, IOUtils
Trace == ndJsonDeserialize(IOEnv.TRACE)
VARIABLES l, bad
Conjuncts == {"X_NoPanic", "X_ImportGoPath", "X_ExposeSplit"}
Holds(c, r) ==
    LET o == r.obs  s == r.case.segs IN
    CASE c = "X_NoPanic"      -> ~o.panicked
      [] c = "X_ImportGoPath" -> o.panicked \/ o.import_go_path = ImportGoPath(s)
      [] c = "X_ExposeSplit"  -> o.panicked \/ (o.expose_path = ImportGoPath(s) /\ o.expose_name = "T")
Failed(r) == {c \in Conjuncts : ~Holds(c, r)}
JInit == l = 1 /\ bad = {} /\ segs = <<>>
JNext == /\ l <= Len(Trace) /\ l' = l + 1
         /\ LET r == Trace[l]  f == Failed(r) IN bad' = IF f = {} THEN bad ELSE bad \cup {[id |-> r.id, failed |-> f]}
         /\ UNCHANGED segs
Verdict == l = Len(Trace) + 1 => PrintT(<<"VERDICT", ToJson([consumed |-> l - 1, bad |-> bad, stats |-> [x |-> 0]])>>)
=============================================================================
