------------------------------- MODULE GoPath -------------------------------
(* pkg/gengo/helper.go: ImportGoPath, and the package part of PkgImportPathAndExpose, for import paths that lie in a vendor
   directory. NOT one of the listed properties (bin/extras, family gopath).

   An import path is a sequence of non-empty segments joined by "/". ImportGoPath looks for the LAST segment "vendor" that has
   a segment before it and one after it; the answer is what follows from THAT SLASH on - the code keeps the "/vendor/" prefix
   (upstream gengo cuts after it; this module describes what octohelm/gengo does, and the difference is recorded here) - and the
   whole path if there is no such segment. PkgImportPathAndExpose("<path>.T") answers (ImportGoPath(path), "T").          *)
EXTENDS Naturals, Sequences, TLC, Json

CONSTANTS Segments, MaxSegs

RECURSIVE JoinFrom(_, _)
JoinFrom(s, k) == IF k > Len(s) THEN "" ELSE IF k = Len(s) THEN s[k] ELSE s[k] \o "/" \o JoinFrom(s, k + 1)
Path(s) == JoinFrom(s, 1)

VendorIdx(s) == {k \in 2..(Len(s) - 1) : s[k] = "vendor"}
Max(S) == CHOOSE x \in S : \A y \in S : y <= x
ImportGoPath(s) == IF VendorIdx(s) = {} THEN Path(s) ELSE "/" \o JoinFrom(s, Max(VendorIdx(s)))

VARIABLE segs
GenInit == segs = <<>>
GenNext == Len(segs) < MaxSegs /\ \E x \in Segments : segs' = Append(segs, x)

(* Loop A: the answer is a suffix of "/" . path, and a path without an inner vendor segment is returned as it is *)
DesignIdentityWithoutVendor == (\A k \in 2..(Len(segs) - 1) : segs[k] # "vendor") => ImportGoPath(segs) = Path(segs)
DesignIdempotentShape == VendorIdx(segs) # {} => ImportGoPath(segs) = "/" \o JoinFrom(segs, Max(VendorIdx(segs)))

EmitCase == segs # <<>> => PrintT(<<"CASE", ToJson([fam |-> "gopath", case |-> [segs |-> segs]])>>)
=============================================================================
