CONSTANTS Paths = {"-"}
 Self = "self.io/me"
 MaxSteps = 0
 LastKinds = {"ref"}
 AbsPaths <- MCAbsPaths
 Cand <- MCCand
 UseFallback = TRUE
INIT JInit
NEXT JNext
INVARIANT Verdict
CHECK_DEADLOCK FALSE
