CONSTANTS FieldKinds = {"scalar", "str", "sliceInt", "mapStr", "structVal", "structDeep", "definedScalar", "definedMap","definedMapM", "errorField", "ifaceField", "typeParam", "genericInst", "sliceStr", "mapOfDefined", "untaggedDep", "genericNamedArg", "definedMapLate", "structWide", "structMixed", "structTwice", "identClash", "caseTwins", "structDefinedMap", "embedShadow", "manyHelpers"}
 MaxFields = 3
 Variants = {"plain", "generic", "interfaces", "typeTagged"}
 DeepNested = TRUE
INIT GenInit
NEXT GenNext
INVARIANT EmitCase
CHECK_DEADLOCK FALSE
