INIT GenInit
NEXT GenNone
INVARIANT DesignPrecedence DesignNoPrefixConfusion
CHECK_DEADLOCK FALSE
