CONSTANTS Segments = {"a"}
 MaxSegs = 0
INIT JInit
NEXT JNext
INVARIANT Verdict
CHECK_DEADLOCK FALSE
