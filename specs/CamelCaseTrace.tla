------------------------- MODULE CamelCaseTrace -------------------------
(* Loop C for C19: a total fold over the recorded trace of camelcase.Split / the converters.
   Each line is judged against the property statement; agreement of the word boundaries with
   the scanner model is counted as drift, never as a violation (C19 does not fix boundaries). *)
EXTENDS CamelCase, IOUtils

Trace == ndJsonDeserialize(IOEnv.TRACE)

VARIABLES l, bad, drift

Conjuncts == {"NoPanic", "NonEmpty", "Lossless", "SingleIfInvalid", "Pure", "ConvTotal", "ConvPure"}

Holds(c, r) ==
    LET o == r.obs IN
    CASE c = "NoPanic"         -> ~o.panicked
      [] c = "NonEmpty"        -> o.panicked \/ \A i \in 1..Len(o.words) : Len(o.words[i]) > 0
      [] c = "Lossless"        -> o.panicked \/ Flat(o.words) = r.conc.input
      [] c = "SingleIfInvalid" -> o.panicked \/ r.conc.valid \/ o.words = <<r.conc.input>>
      [] c = "Pure"            -> o.panicked \/ o.again
      [] c = "ConvTotal"       -> ~o.conv_panicked
      [] c = "ConvPure"        -> o.conv_panicked \/ (o.conv_again /\ o.conv_alias_equal)

Failed(r) == {c \in Conjuncts : ~Holds(c, r)}

Drifts(r) == r.conc.valid /\ ~r.obs.panicked /\ r.obs.lens # Lens(r.conc.cls)

JInit == l = 1 /\ bad = {} /\ drift = 0 /\ cls = <<>>
JNext == /\ l <= Len(Trace)
         /\ l' = l + 1
         /\ LET r == Trace[l]
                f == Failed(r)
            IN /\ bad' = IF f = {} THEN bad ELSE bad \cup {[id |-> r.id, failed |-> f]}
               /\ drift' = IF Drifts(r) THEN drift + 1 ELSE drift
         /\ UNCHANGED cls

Verdict == l = Len(Trace) + 1 =>
             PrintT(<<"VERDICT", ToJson([consumed |-> l - 1, bad |-> bad, stats |-> [drift |-> drift]])>>)
==========================================================================
