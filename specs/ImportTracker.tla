--------------------------- MODULE ImportTracker ---------------------------
(* pkg/namer: defaultImportTracker + rawNamer, as used by every generated file  -- property C03.

   State: the import table  names : path -> local name.
   The specification is PERMISSIVE about which name a new path receives (C03 does not prescribe the
   candidate search) and STRICT about what must hold for it:
       - it is a valid, non-keyword Go identifier other than "_",
       - it is bound to no other path (injective),
       - bindings never change and asking again yields the same name,
       - exactly the referenced foreign paths are in the table (own package: never, unqualified).
   A second, code-shaped layer models the candidate search (trailing path segments, invalid or taken
   candidates skipped, numbered fall-back) over an abstract candidate table, and TLC checks that the
   search is total for every order of additions - and is not when the fall-back is removed.          *)
EXTENDS Naturals, Sequences, FiniteSets, TLC, Json

CONSTANTS Paths,          \* generation machine: the universe of import paths (strings)
          Self,           \* the file's own package
          MaxSteps,
          LastKinds       \* reference kinds tried for the last step

Keywords == {"break", "case", "chan", "const", "continue", "default", "defer", "else", "fallthrough", "for", "func",
             "go", "goto", "if", "import", "interface", "map", "package", "range", "return", "select", "struct",
             "switch", "type", "var"}

(* ------------------------------------------------------------------ permissive contract *)
(* name: record [str, ident_ok]  - ident_ok is go/token.IsIdentifier(str) as logged by the harness
   (valid identifier and not a keyword); the keyword part is re-checked here. *)
NameOK(n) == n.ident_ok /\ n.str \notin Keywords /\ n.str # "_" /\ n.str # ""

(* what a reference of each kind mentions, and the text it must render to under the table `tbl` *)
RefsOf(kind, path) == IF kind = "generic" THEN {path, "encoding/json"} ELSE IF kind = "generictime" THEN {path, "time"} ELSE {path}

Q(tbl, p, self) == IF p = self THEN "" ELSE IF p \in DOMAIN tbl THEN tbl[p].str \o "." ELSE "?."
Rendered(kind, path, self, tbl) ==
    CASE kind = "ref"     -> Q(tbl, path, self) \o "T"
      [] kind = "expose"  -> Q(tbl, path, self) \o "Fn"
      [] kind = "typelit" -> "map[string]*" \o Q(tbl, path, self) \o "T"
      [] kind = "generic" -> Q(tbl, path, self) \o "G[" \o Q(tbl, "encoding/json", self) \o "RawMessage," \o Q(tbl, self, self) \o "L]"
      (* the only foreign type argument comes from a package whose import path has ONE element (no slash in the whole argument list) *)
      [] kind = "generictime" -> Q(tbl, path, self) \o "G[string," \o Q(tbl, "time", self) \o "Duration]"

(* one step of a history: the table before, the table after, the reference made, the text printed *)
StepOK(before, after, kind, path, self, text) ==
    [Exact     |-> DOMAIN after = DOMAIN before \cup (RefsOf(kind, path) \ {self}),
     Stable    |-> \A p \in DOMAIN before \cap DOMAIN after : after[p].str = before[p].str,
     Valid     |-> \A p \in DOMAIN after : NameOK(after[p]),
     Unique    |-> \A p, q \in DOMAIN after : p # q => after[p].str # after[q].str,
     Qualifier |-> text = Rendered(kind, path, self, after)]

(* ------------------------------------------------------------------ code-shaped candidate search (Loop A) *)
CONSTANTS AbsPaths, Cand, UseFallback       \* Cand: path -> sequence of candidate names ("!bad" = not a valid identifier)
VARIABLES tab, order, steps                 \* tab: path -> name ; order: paths added so far ; steps: Loop B history

Taken(n) == \E p \in DOMAIN tab : tab[p] = n
FirstFree(c) == IF \E i \in 1..Len(c) : c[i] # "!bad" /\ ~Taken(c[i])
                THEN LET i == CHOOSE i \in 1..Len(c) : c[i] # "!bad" /\ ~Taken(c[i]) /\
                                   \A j \in 1..(i - 1) : c[j] = "!bad" \/ Taken(c[j])
                     IN c[i]
                ELSE "!none"
Fallback(p) == CHOOSE n \in {"fb:" \o p \o ToString(k) : k \in 1..(Cardinality(AbsPaths) + 1)} : ~Taken(n)

AInit == tab = <<>> /\ order = <<>> /\ steps = <<>>
Add(p) == /\ p \notin DOMAIN tab
          /\ LET n == FirstFree(Cand[p]) IN
             IF n # "!none" THEN tab' = tab @@ (p :> n)
             ELSE IF UseFallback THEN tab' = tab @@ (p :> Fallback(p))
             ELSE tab' = tab                               \* the path stays unnamed
          /\ order' = Append(order, p)
          /\ UNCHANGED steps
ANext == \E p \in AbsPaths : p \notin {order[i] : i \in 1..Len(order)} /\ Add(p)

DesignAllNamed  == \A i \in 1..Len(order) : order[i] \in DOMAIN tab
DesignInjective == \A p, q \in DOMAIN tab : p # q => tab[p] # tab[q]
DesignNoBadName == \A p \in DOMAIN tab : tab[p] # "!bad"

(* ------------------------------------------------------------------ generation machine (Loop B) *)
(* steps: sequence of [kind, path] *)

GenInit == steps = <<>> /\ tab = <<>> /\ order = <<>>
GenNext == /\ Len(steps) < MaxSteps
           /\ \E p \in Paths \cup {Self} : steps' = Append(steps, [kind |-> "ref", path |-> p])
           /\ UNCHANGED <<tab, order>>

(* every sequence of plain references, closed by one reference of each kind *)
EmitCase == \A k \in LastKinds : \A p \in Paths \cup {Self} :
               PrintT(<<"CASE", ToJson([fam |-> "tracker",
                                        case |-> [self |-> Self, steps |-> Append(steps, [kind |-> k, path |-> p])]])>>)
=============================================================================
