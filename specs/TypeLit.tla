------------------------------ MODULE TypeLit ------------------------------
(* pkg/gengo/internal/dumper.go TypeLit, snippet.ID / %T for go/types and reflect types  -- property C11.

   Closed type expressions as trees  [k, id, sub] :
       leaf  : a predeclared type, error, any, a named type of one of three packages (own / other / same-named clash),
               or an instantiation of a generic type with a basic or a named argument
       ptr, slice, array3, array0 (the boundary length), chan (bidirectional), mapS (map[string]E), mapK (map[K]E with a named key),
       struct1 (one tagged field), struct2 (an embedded field and a plain field), struct3 (two plain fields: the same type
       may occur twice in one expression)
   The law: the rendered text, type-checked in the target package with exactly the imports registered while rendering,
   is identical to the type it was rendered from; local types unqualified, foreign ones under their import name.
   Whether text denotes a type is decided by go/types in the conformance step (logged); the specification supplies the
   domain and the law.                                                                                               *)
EXTENDS Naturals, Sequences, FiniteSets, TLC, Json

CONSTANTS Depth, Leaves, Ctors, Targets, Views

Leaf(id) == [k |-> "leaf", id |-> id, sub |-> <<>>]
Node(c, sub) == [k |-> c, id |-> "", sub |-> sub]
Arity(c) == IF c \in {"mapK", "struct2", "struct3"} THEN 2 ELSE 1

RECURSIVE Trees(_)
Trees(d) == IF d <= 1 THEN {Leaf(x) : x \in Leaves}
            ELSE LET sub == Trees(d - 1)
                     small == {Leaf(x) : x \in Leaves}
                 IN sub \cup {Node(c, <<s>>) : c \in {x \in Ctors : Arity(x) = 1}, s \in sub}
                        \cup {Node(c, <<a, b>>) : c \in {x \in Ctors : Arity(x) = 2}, a \in small, b \in sub}

(* well-formedness the Go type system imposes: map keys must be comparable (named integer leaf here), embedded fields named types *)
KeyOK(t) == t.k = "leaf" /\ t.id \in {"fixt.AI", "int", "string", "fixt2.BS"}
EmbedOK(t) == t.k = "leaf" /\ t.id \in {"fixt.A", "fixt2.B", "clash.C", "fixt.Gen[int]"}
RECURSIVE WellFormed(_)
WellFormed(t) == /\ (t.k = "mapK" => KeyOK(t.sub[1]))
                 /\ (t.k = "struct2" => EmbedOK(t.sub[1]))
                 /\ \A i \in 1..Len(t.sub) : WellFormed(t.sub[i])

VARIABLES tree, target, view
GenInit == tree \in {t \in Trees(Depth) : WellFormed(t)} /\ target \in Targets /\ view \in Views
GenNone == FALSE /\ UNCHANGED <<tree, target, view>>

(* which packages a tree mentions: exactly those - minus the target - must be imported *)
PkgOfLeaf(id) == CASE id \in {"fixt.A", "fixt.AI", "fixt.Gen[int]", "fixt.Gen[fixt.A]", "fixt.PA"} -> {"fixt"}       \* fixt.PA: a named POINTER type (type PA *A)
                   [] id = "fixt.Gen[stdtime.Duration]" -> {"fixt", "stdtime"}     \* the argument comes from a package whose import path has one element (time)
                   [] id = "subjson.J" -> {"subjson"}                 \* a package of the module that is called json
                   [] id = "stdjson.RawMessage" -> {"stdjson"}        \* encoding/json
                   [] id = "fixt.Gen[dotted.D]" -> {"fixt", "dotted"} \* the argument's package path ends in dotted.v3
                   [] id \in {"fixt2.B", "fixt2.BS"} -> {"fixt2"}
                   [] id \in {"clash.C"} -> {"clash"}
                   [] id = "fixt.Gen[fixt2.B]" -> {"fixt", "fixt2"}
                   [] OTHER -> {}
RECURSIVE Mentions(_)
Mentions(t) == IF t.k = "leaf" THEN PkgOfLeaf(t.id) ELSE UNION {Mentions(t.sub[i]) : i \in 1..Len(t.sub)}

EmitCase == PrintT(<<"CASE", ToJson([fam |-> "typelit", case |-> [tree |-> tree, target |-> target, view |-> view, mentions |-> Mentions(tree)]])>>)
=============================================================================
