CONSTANTS Depth = 3
 Leaves = {"error", "clash.C", "fixt.Gen[fixt2.B]", "subjson.J", "stdjson.RawMessage", "fixt.Gen[dotted.D]", "fixt.PA", "fixt.Gen[stdtime.Duration]"}
 Ctors = {"ptr", "mapS", "struct2"}
 Targets = {"clash-pre"}
 Views = {"types", "reflect"}
INIT GenInit
NEXT GenNone
INVARIANT EmitCase
CHECK_DEADLOCK FALSE
