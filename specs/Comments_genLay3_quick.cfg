CONSTANTS MaxLen = 3
 Alphabet = {32, 43, 64, 61, 107, 118}
 Kinds = {"B", "C", "D", "T", "X", "E"}
 Contexts = {"top", "type", "const", "var", "struct"}
 TrailingInLeading = FALSE
INIT GenInitLay
NEXT GenNextLay
INVARIANT EmitCase
CHECK_DEADLOCK FALSE
