--------------------------- MODULE TemplateTrace ---------------------------
(* Loop C for C09: every recorded rendering must be what the declarative reference computes. *)
EXTENDS Template, IOUtils

Trace == ndJsonDeserialize(IOEnv.TRACE)

VARIABLES l, bad

Conjuncts == {"C09_Panic", "C09_Output", "C09_ValueReusable"}

Expected(c) ==
    CASE c.api = "T"           -> LET r == ExpandT(c.fmt, EnvOf(c.env)) IN SRes(r.panic, r.out, FALSE)
      [] c.api = "Sprintf"     -> ExpandS(c.fmt, c.args)
      [] c.api = "Comment"     -> SRes(FALSE, CommentRef(c.fmt), FALSE)
      [] c.api = "GoDirective" -> SRes(FALSE, DirectiveRef(c.fmt, c.args), FALSE)
      [] c.api = "Snippets"    -> SRes(FALSE, ConcatParts(c.args, 1), FALSE)
      [] c.api = "Fragments"   -> SRes(FALSE, ConcatParts(c.args, 1), FALSE)

Holds(c, r) ==
    LET e == Expected(r.case)
        o == r.obs
    IN CASE c = "C09_Panic"  -> e.amb \/ (o.panicked = e.panic)
         [] c = "C09_Output" -> e.panic \/ o.panicked \/ o.out = e.out
         (* a snippet is a value: rendered a second time, into the file of another package, it comes out like a freshly built one *)
         [] c = "C09_ValueReusable" -> ~o.reuse_judged \/ (o.panicked_again = o.panicked_fresh /\ o.out_again = o.out_fresh)

Failed(r) == {c \in Conjuncts : ~Holds(c, r)}

JInit == l = 1 /\ bad = {} /\ api = "T" /\ fmt = <<>> /\ args = <<>> /\ closed = FALSE
JNext == /\ l <= Len(Trace)
         /\ l' = l + 1
         /\ LET r == Trace[l]
                f == Failed(r)
            IN bad' = IF f = {} THEN bad ELSE bad \cup {[id |-> r.id, failed |-> f]}
         /\ UNCHANGED vars

Verdict == l = Len(Trace) + 1 =>
             PrintT(<<"VERDICT", ToJson([consumed |-> l - 1, bad |-> bad, stats |-> [x |-> 0]])>>)
=============================================================================
