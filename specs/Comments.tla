------------------------------ MODULE Comments ------------------------------
(* pkg/types/comments.go (ExtractCommentTags) and pkg/types/package.go (comment index, Doc, Comment)
   -- property C12.

   Part 1: tag extraction. A comment line (sequence of code points) is classified exactly once:
           tag iff, after trimming spaces, it starts with a marker; key = text up to the first '=' or
           space, value = everything after; repeated keys keep all values in order.
   Part 2: attribution. A source fragment is a sequence of line kinds
               "B" blank                      "C" own-line // comment        "G" own-line // +t=v tag line
               "K" own-line /* block */       "D" declaration                "T" declaration // trailing
               "M" two-name declaration // trailing   (a plain declaration where the context has none)
               "X" a declaration that spans several source lines, with a // trailing comment after its LAST line
               "E" an embedded struct field // trailing   (a declaration // trailing outside struct bodies)
           inside one of the contexts top (ungrouped type/const/var), type(...), const(...), var(...), struct{...}.
           Doc(d)     = the maximal run of own-line comment lines ending directly above d (never the trailing
                        comment of the declaration on the previous line), split into tag values and other lines;
           Comment(d) = the trailing comment on d's own line.
   The generation machines enumerate all line lists / layouts in bound (Loop B); CommentsTrace judges
   what gengo returned (Loop C); Loop A checks that gengo's two-index scheme (leading groups keyed by
   their end line, trailing groups kept apart) computes exactly the geometric definition.               *)
EXTENDS Naturals, Sequences, FiniteSets, TLC, Json

CONSTANTS MaxLen,       \* part 1: max line length; part 2: max number of layout lines
          Alphabet,     \* part 1: code points
          Kinds,        \* part 2: line kinds
          Contexts      \* part 2

Sp == 32  Eq == 61

(* ------------------------------------------------------------------ part 1: tags *)
RECURSIVE TrimL(_)
TrimL(s) == IF s # <<>> /\ Head(s) = Sp THEN TrimL(Tail(s)) ELSE s
RECURSIVE TrimR(_)
TrimR(s) == IF s # <<>> /\ s[Len(s)] = Sp THEN TrimR(SubSeq(s, 1, Len(s) - 1)) ELSE s
Trim(s) == TrimR(TrimL(s))

IsTag(line, markers) == LET t == Trim(line) IN t # <<>> /\ t[1] \in markers

RECURSIVE SepIdx(_, _)
SepIdx(s, i) == IF i > Len(s) THEN 0 ELSE IF s[i] \in {Eq, Sp} THEN i ELSE SepIdx(s, i + 1)

KeyOf(line) == LET b == Tail(Trim(line))
                   i == SepIdx(b, 1)
               IN IF i = 0 THEN b ELSE SubSeq(b, 1, i - 1)
ValOf(line) == LET b == Tail(Trim(line))
                   i == SepIdx(b, 1)
               IN IF i = 0 THEN <<>> ELSE SubSeq(b, i + 1, Len(b))

TagLines(lines, markers) == SelectSeq(lines, LAMBDA ln : IsTag(ln, markers))
OtherLines(lines, markers) == LET o == SelectSeq(lines, LAMBDA ln : ~IsTag(ln, markers))
                              IN [i \in 1..Len(o) |-> Trim(o[i])]

ValuesFor(k, tl) == LET m == SelectSeq(tl, LAMBDA ln : KeyOf(ln) = k) IN [i \in 1..Len(m) |-> ValOf(m[i])]

(* the tag multimap as a set of <<key, values in order>> *)
TagMap(lines, markers) == LET tl == TagLines(lines, markers)
                          IN {<<KeyOf(tl[i]), ValuesFor(KeyOf(tl[i]), tl)>> : i \in 1..Len(tl)}

(* every line is classified exactly once *)
DesignPartition(lines, markers) ==
    Len(TagLines(lines, markers)) + Len(OtherLines(lines, markers)) = Len(lines)

(* ------------------------------------------------------------------ part 2: attribution *)
IsComment(k) == k \in {"C", "G", "K"}
IsDecl(k) == k \in {"D", "T", "M", "X", "E"}
HasTrailing(k) == k \in {"T", "M", "X", "E"}
(* where the trailing comment of a declaration spanning several lines belongs is not said by the statement ("on the declaration's
   own line"): Comment is not judged for X, only that the comment is never the NEXT declaration's documentation *)
CommentJudged(k) == k # "X"

RECURSIVE GroupStart(_, _)     \* first line of the maximal comment run that ends at line i (i + 1 if there is none)
GroupStart(lay, i) == IF i >= 1 /\ IsComment(lay[i]) THEN GroupStart(lay, i - 1) ELSE i + 1

Num(i) == ToString(i)
(* text the harness writes on comment line i. Every third // line reads "go: c<i>": ordinary words that happen to start like a
   compiler directive (a real directive has no space after the slashes and is no part of the comment text) *)
DocText(k, i) == IF k = "K" THEN "k" \o Num(i) ELSE IF i % 3 = 2 THEN "go: c" \o Num(i) ELSE IF i % 3 = 0 THEN "host:port c" \o Num(i) ELSE "c" \o Num(i)
TagVal(i) == "v" \o Num(i)                                               \* // +t=v<i>
TrailText(i) == "t" \o Num(i)

Pick(lay, from, to, P(_)) == LET idx == SelectSeq([j \in 1..(to - from + 1) |-> from + j - 1], LAMBDA j : P(lay[j])) IN idx

ExpectedDoc(lay, L) ==
    LET s == GroupStart(lay, L - 1)
        tagIdx == Pick(lay, s, L - 1, LAMBDA k : k = "G")
        othIdx == Pick(lay, s, L - 1, LAMBDA k : k \in {"C", "K"})
    IN [tagvals |-> [j \in 1..Len(tagIdx) |-> TagVal(tagIdx[j])],
        lines   |-> [j \in 1..Len(othIdx) |-> DocText(lay[othIdx[j]], othIdx[j])]]

ExpectedComment(lay, L) == IF HasTrailing(lay[L]) THEN <<TrailText(L)>> ELSE <<>>

DeclLines(lay) == {L \in 1..Len(lay) : IsDecl(lay[L])}

(* gengo's index scheme (as intended): every own-line comment group is entered in the leading index under the
   line it ENDS on; trailing groups go to a separate index under their own line and - with
   TrailingInLeading = FALSE - nowhere else. Doc(L) looks up L - 1 in the leading index. *)
CONSTANT TrailingInLeading

LeadingIndex(lay) ==
    [e \in {i \in 1..Len(lay) : \/ (IsComment(lay[i]) /\ (i = Len(lay) \/ ~IsComment(lay[i + 1])))
                                \/ (TrailingInLeading /\ HasTrailing(lay[i]))} |->
        IF IsComment(lay[e]) THEN [kind |-> "group", from |-> GroupStart(lay, e), to |-> e]
        ELSE [kind |-> "trailing", from |-> e, to |-> e]]

IndexDoc(lay, L) ==
    LET ix == LeadingIndex(lay) IN
    IF (L - 1) \notin DOMAIN ix THEN [tagvals |-> <<>>, lines |-> <<>>]
    ELSE IF ix[L - 1].kind = "trailing" THEN [tagvals |-> <<>>, lines |-> <<TrailText(L - 1)>>]
    ELSE ExpectedDoc(lay, L)

(* ------------------------------------------------------------------ generation machines *)
VARIABLES part, lines, ctx, layout
vars == <<part, lines, ctx, layout>>

(* part 1: one line, every string over Alphabet up to MaxLen *)
GenInitTag == part = "tags" /\ lines = <<<<>>>> /\ ctx = "none" /\ layout = <<>>
GenNextTag == /\ Len(lines[1]) < MaxLen
              /\ \E c \in Alphabet : lines' = <<Append(lines[1], c)>>
              /\ UNCHANGED <<part, ctx, layout>>

(* part 1: lists of up to 3 lines over a fixed set of interesting lines *)
LineSet == { <<43, 107, 61, 118>>,            \* +k=v
             <<43, 107, 32, 119>>,            \* +k w
             <<43, 107>>,                     \* +k
             <<64, 106, 61, 49, 61, 50>>,     \* @j=1=2
             <<116, 101, 120, 116>>,          \* text
             <<>>,                            \* empty
             <<32, 32, 43, 107, 61, 120, 32>>,\* "  +k=x "
             <<107, 61, 118>>,                \* k=v   (no marker)
             <<24107, 107, 61, 118>>,         \* U+5E2B k=v : a word whose first character merely ENDS in the byte of '+'
             <<320, 61, 118>> }               \* U+0140 =v  : ... in the byte of '@'  (markers are characters, not bytes)
GenInitList == /\ part = "tags" /\ ctx = "none" /\ layout = <<>>
               /\ lines \in UNION {[1..n -> LineSet] : n \in 2..3}
GenNone == FALSE /\ UNCHANGED vars

(* part 2: every layout over Kinds up to MaxLen lines, in every context *)
GenInitLay == part = "layout" /\ lines = <<>> /\ ctx \in Contexts /\ layout = <<>>
GenNextLay == /\ Len(layout) < MaxLen
              /\ \E k \in Kinds : layout' = Append(layout, k)
              /\ UNCHANGED <<part, lines, ctx>>

DefaultMarkers == {43, 64}

DesignClassifiedOnce == part = "tags" => DesignPartition(lines, DefaultMarkers)
DesignIndexIsGeometry == part = "layout" => \A L \in DeclLines(layout) : IndexDoc(layout, L) = ExpectedDoc(layout, L)

EmitCase == PrintT(<<"CASE", ToJson([fam |-> "comments",
                                     case |-> [part |-> part, lines |-> lines, markers |-> <<43, 64>>, ctx |-> ctx, layout |-> layout]])>>)
=============================================================================
