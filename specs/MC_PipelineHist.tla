-------------------------- MODULE MC_PipelineHist --------------------------
EXTENDS PipelineHist
Fl(n, s, v) == [newer |-> n, stateful |-> s, variant |-> v]
Flav_plain == {Fl(FALSE, FALSE, "plain")}
Flav_alias == {Fl(FALSE, FALSE, "alias")}          \* every package also declares `type A1 = T1` (C07: ErrIgnore from GenerateAliasType)
Flav_two == {Fl(FALSE, FALSE, "plain"), Fl(TRUE, TRUE, "shadow")}
Flav_twoA == Flav_two \cup Flav_alias
Flav_shadow == {Fl(FALSE, FALSE, "plain"), Fl(FALSE, TRUE, "shadow"), Fl(TRUE, FALSE, "shadow"), Fl(TRUE, TRUE, "big"), Fl(FALSE, FALSE, "split")}
Flav_shadowQ == {Fl(FALSE, TRUE, "shadow"), Fl(TRUE, TRUE, "big"), Fl(FALSE, FALSE, "split")}
Flav_stateful == {Fl(FALSE, TRUE, "plain"), Fl(TRUE, TRUE, "plain")}
Flav_all4 == {Fl(n, s, "plain") : n \in BOOLEAN, s \in BOOLEAN} \cup {Fl(TRUE, TRUE, "shadow")}
=============================================================================
