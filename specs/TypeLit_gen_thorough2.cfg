CONSTANTS Depth = 4
 Leaves = {"error", "fixt.A", "clash.C", "fixt.Gen[fixt2.B]", "subjson.J", "stdjson.RawMessage", "fixt.Gen[dotted.D]", "fixt.PA", "fixt.Gen[stdtime.Duration]"}
 Ctors = {"ptr", "slice", "mapS", "chan", "struct2"}
 Targets = {"fixt", "fixt2", "clash-pre", "dotted"}
 Views = {"types", "reflect"}
INIT GenInit
NEXT GenNone
INVARIANT EmitCase
CHECK_DEADLOCK FALSE
