INIT SInit
NEXT SNone
INVARIANT EmitCase
CHECK_DEADLOCK FALSE
