--------------------------- MODULE MemoCacheProof ---------------------------
(* TLAPS proof, for ANY number of goroutines, keys and calls, of the safety core of InflectorCache.tla (property C20,
   "the same result ... also when called concurrently from many goroutines"): in the LoadOrStore / OnceValue protocol
   every value a caller returns is the memoised function's value for its key, and nobody waits on a once that nobody
   is running. (TLC checks the same - plus at-most-once computation and, with fairness, that every caller returns -
   for small numbers of goroutines and keys.)                                                                        *)
EXTENDS TLAPS

CONSTANTS Goroutines, Keys, F(_), None
ASSUME NoneNotF == \A k \in Keys : F(k) # None

VARIABLES cache, once, val, pc, cur, rets
vars == <<cache, once, val, pc, cur, rets>>

PCs == {"idle", "called", "have", "computing", "waiting", "ret"}

Init == /\ cache = [k \in Keys |-> FALSE]
        /\ once = [k \in Keys |-> "idle"]
        /\ val = [k \in Keys |-> None]
        /\ pc = [g \in Goroutines |-> "idle"]
        /\ cur \in [Goroutines -> Keys]
        /\ rets = {}

Call(g, k) == /\ pc[g] = "idle"
              /\ pc' = [pc EXCEPT ![g] = "called"] /\ cur' = [cur EXCEPT ![g] = k]
              /\ UNCHANGED <<cache, once, val, rets>>
LoadOrStore(g) == /\ pc[g] = "called"
                  /\ cache' = [cache EXCEPT ![cur[g]] = TRUE]
                  /\ pc' = [pc EXCEPT ![g] = "have"]
                  /\ UNCHANGED <<once, val, cur, rets>>
EnterFirst(g) == /\ pc[g] = "have" /\ once[cur[g]] = "idle"
                 /\ once' = [once EXCEPT ![cur[g]] = "running"] /\ pc' = [pc EXCEPT ![g] = "computing"]
                 /\ UNCHANGED <<cache, val, cur, rets>>
EnterWait(g) == /\ pc[g] = "have" /\ once[cur[g]] = "running"
                /\ pc' = [pc EXCEPT ![g] = "waiting"]
                /\ UNCHANGED <<cache, once, val, cur, rets>>
EnterDone(g) == /\ pc[g] = "have" /\ once[cur[g]] = "done"
                /\ pc' = [pc EXCEPT ![g] = "ret"]
                /\ UNCHANGED <<cache, once, val, cur, rets>>
Compute(g) == /\ pc[g] = "computing"
              /\ val' = [val EXCEPT ![cur[g]] = F(cur[g])]
              /\ once' = [once EXCEPT ![cur[g]] = "done"]
              /\ pc' = [pc EXCEPT ![g] = "ret"]
              /\ UNCHANGED <<cache, cur, rets>>
Wake(g) == /\ pc[g] = "waiting" /\ once[cur[g]] = "done"
           /\ pc' = [pc EXCEPT ![g] = "ret"]
           /\ UNCHANGED <<cache, once, val, cur, rets>>
Return(g) == /\ pc[g] = "ret"
             /\ rets' = rets \cup {<<g, cur[g], val[cur[g]]>>}
             /\ pc' = [pc EXCEPT ![g] = "idle"]
             /\ UNCHANGED <<cache, once, val, cur>>

Next == \E g \in Goroutines : \/ \E k \in Keys : Call(g, k)
                              \/ LoadOrStore(g) \/ EnterFirst(g) \/ EnterWait(g) \/ EnterDone(g)
                              \/ Compute(g) \/ Wake(g) \/ Return(g)
Spec == Init /\ [][Next]_vars

TypeOK == /\ once \in [Keys -> {"idle", "running", "done"}]
          /\ pc \in [Goroutines -> PCs]
          /\ cur \in [Goroutines -> Keys]
          /\ val \in [Keys -> {F(k) : k \in Keys} \cup {None}]

DoneHasValue  == \A k \in Keys : once[k] = "done" => val[k] = F(k)
RetMeansDone  == \A g \in Goroutines : pc[g] = "ret" => once[cur[g]] = "done"
WaitersWatched == \A g \in Goroutines : pc[g] = "waiting" => once[cur[g]] \in {"running", "done"}
ReturnsF      == \A r \in rets : r[3] = F(r[2])

Inv == TypeOK /\ DoneHasValue /\ RetMeansDone /\ WaitersWatched /\ ReturnsF

LEMMA InitInv == Init => Inv
  BY DEF Init, Inv, TypeOK, DoneHasValue, RetMeansDone, WaitersWatched, ReturnsF, PCs

LEMMA StepInv == Inv /\ [Next]_vars => Inv'
<1> SUFFICES ASSUME Inv, [Next]_vars PROVE Inv'
  OBVIOUS
<1> USE DEF Inv, TypeOK, DoneHasValue, RetMeansDone, WaitersWatched, ReturnsF, PCs
<1>0. CASE UNCHANGED vars
  BY <1>0 DEF vars
<1>1. ASSUME NEW g \in Goroutines, NEW k \in Keys, Call(g, k) PROVE Inv'
  BY <1>1 DEF Call
<1>2. ASSUME NEW g \in Goroutines, LoadOrStore(g) PROVE Inv'
  BY <1>2 DEF LoadOrStore
<1>3. ASSUME NEW g \in Goroutines, EnterFirst(g) PROVE Inv'
  BY <1>3 DEF EnterFirst
<1>4. ASSUME NEW g \in Goroutines, EnterWait(g) PROVE Inv'
  BY <1>4 DEF EnterWait
<1>5. ASSUME NEW g \in Goroutines, EnterDone(g) PROVE Inv'
  BY <1>5 DEF EnterDone
<1>6. ASSUME NEW g \in Goroutines, Compute(g) PROVE Inv'
  BY <1>6 DEF Compute
<1>7. ASSUME NEW g \in Goroutines, Wake(g) PROVE Inv'
  BY <1>7 DEF Wake
<1>8. ASSUME NEW g \in Goroutines, Return(g) PROVE Inv'
  BY <1>8 DEF Return
<1> QED
  BY <1>0, <1>1, <1>2, <1>3, <1>4, <1>5, <1>6, <1>7, <1>8 DEF Next

THEOREM Safety == Spec => [](ReturnsF /\ WaitersWatched)
<1>1. Spec => []Inv
  BY InitInv, StepInv, PTL DEF Spec
<1>2. Inv => ReturnsF /\ WaitersWatched
  BY DEF Inv
<1> QED
  BY <1>1, <1>2, PTL
=============================================================================
