------------------------- MODULE ImportTableProof -------------------------
(* An unbounded, machine-checked (TLAPS) proof of the design-level core of C03: whatever the universe of
   import paths and names, and however many references are made in whatever order, an import table that binds
   a NEW path to SOME valid name not yet in use (and never rebinds) stays a function from paths to valid names,
   injective, and only grows. This is the permissive contract of ImportTracker.tla (StepOK: Valid, Unique, Stable)
   as an inductive invariant; TLC checks the same on small universes, the trace judge checks the real tracker
   against it step by step.                                                                                      *)
EXTENDS TLAPS

CONSTANTS Paths, Names, Valid
ASSUME ValidSub == Valid \subseteq Names

VARIABLE tab          \* the table as a set of <<path, name>> pairs

Dom == {pr[1] : pr \in tab}
Rng == {pr[2] : pr \in tab}

Init == tab = {}
Add(p) == IF p \in Dom THEN tab' = tab
          ELSE \E n \in Valid : n \notin Rng /\ tab' = tab \cup {<<p, n>>}
Next == \E p \in Paths : Add(p)
Spec == Init /\ [][Next]_tab

TypeOK     == tab \subseteq (Paths \X Valid)
Functional == \A a, b \in tab : a[1] = b[1] => a = b
Injective  == \A a, b \in tab : a[2] = b[2] => a = b
Inv == TypeOK /\ Functional /\ Injective

LEMMA InitInv == Init => Inv
  BY DEF Init, Inv, TypeOK, Functional, Injective

LEMMA StepInv == Inv /\ [Next]_tab => Inv'
<1> SUFFICES ASSUME Inv, [Next]_tab PROVE Inv'
  OBVIOUS
<1>1. CASE UNCHANGED tab
  BY <1>1 DEF Inv, TypeOK, Functional, Injective
<1>2. CASE Next
  <2>1. PICK p \in Paths : Add(p)
    BY <1>2 DEF Next
  <2>2. CASE p \in Dom
    BY <2>1, <2>2 DEF Add, Inv, TypeOK, Functional, Injective
  <2>3. CASE p \notin Dom
    <3>1. PICK n \in Valid : n \notin Rng /\ tab' = tab \cup {<<p, n>>}
      BY <2>1, <2>3 DEF Add
    <3>2. TypeOK'
      BY <3>1 DEF Inv, TypeOK
    <3>3. Functional'
      BY <3>1, <2>3 DEF Inv, Functional, Dom
    <3>4. Injective'
      BY <3>1 DEF Inv, Injective, Rng
    <3> QED
      BY <3>2, <3>3, <3>4 DEF Inv
  <2> QED
    BY <2>2, <2>3
<1> QED
  BY <1>1, <1>2

THEOREM Safety == Spec => []Inv
  BY InitInv, StepInv, PTL DEF Spec

(* bindings never change: the table only grows *)
LEMMA Grows == [Next]_tab => tab \subseteq tab'
  BY DEF Next, Add
=============================================================================
