-------------------------- MODULE FuncResultsProof --------------------------
(* TLAPS proof over FuncResults.tla ITSELF (Loop A machine), for ANY finite set of functions, ANY number of results and ANY
   call graph - self and mutual recursion of any shape: with a mark for every (function, result index) pair (the code since
   the fix) the depth-first search of ResultsOf never holds the same pair twice on its stack, so its depth is bounded by the
   number of pairs: it terminates (C14_Terminates). With one mark per function TLC shows the unbounded descent
   (FuncResults_A_bugdemo.cfg).                                                                                       *)
EXTENDS FuncResults, FiniteSetTheorems, TLAPS

ASSUME CodeMarksEveryIndex == MarkEveryIndex = TRUE
ASSUME CallsType == Calls \in [Pairs -> SUBSET Pairs]
ASSUME PairsFinite == IsFiniteSet(Pairs)

Frame == [pair : Pairs, todo : SUBSET Pairs]
Inv == /\ stack \in Seq(Frame)
       /\ visited \subseteq Pairs
       /\ \A i \in 1..Len(stack) : stack[i].pair \in visited
       /\ \A i, j \in 1..Len(stack) : stack[i].pair = stack[j].pair => i = j

LEMMA InitInv == AInit => Inv
  BY CallsType DEF AInit, Inv, Frame

LEMMA StepInv == ASSUME Inv, ANext PROVE Inv'
<1>1. CASE Return
  BY <1>1 DEF Return, Inv, Frame
<1>2. CASE Visit
  <2>1. stack # <<>> /\ Len(stack) \in Nat /\ Len(stack) >= 1
    BY <1>2 DEF Visit, Inv
  <2>2. PICK pr \in Top.todo :
          LET st2 == [stack EXCEPT ![Len(stack)].todo = @ \ {pr}] IN
          IF Marked(pr) THEN stack' = st2 /\ UNCHANGED <<visited, asked>>
          ELSE /\ stack' = Append(st2, [pair |-> pr, todo |-> Calls[pr]])
               /\ visited' = IF MarkEveryIndex \/ pr[1] \notin asked THEN visited \cup {pr} ELSE visited
               /\ asked' = asked \cup {pr[1]}
    BY <1>2 DEF Visit
  <2> DEFINE st2 == [stack EXCEPT ![Len(stack)].todo = @ \ {pr}]
  <2>3. pr \in Pairs
    BY <2>1, <2>2 DEF Top, Inv, Frame
  <2>4. /\ st2 \in Seq(Frame) /\ Len(st2) = Len(stack)
        /\ \A i \in 1..Len(stack) : st2[i].pair = stack[i].pair
    BY <2>1 DEF Inv, Frame
  <2>5. CASE Marked(pr)
    BY <2>2, <2>4, <2>5 DEF Inv
  <2>6. CASE ~Marked(pr)
    <3>1. pr \notin visited
      BY <2>6, CodeMarksEveryIndex DEF Marked
    <3>2. /\ stack' = Append(st2, [pair |-> pr, todo |-> Calls[pr]])
          /\ visited' = visited \cup {pr}
      BY <2>2, <2>6, CodeMarksEveryIndex
    <3>3. [pair |-> pr, todo |-> Calls[pr]] \in Frame
      BY <2>3, CallsType DEF Frame
    <3>4. /\ stack' \in Seq(Frame) /\ Len(stack') = Len(stack) + 1
          /\ \A i \in 1..Len(stack) : stack'[i].pair = stack[i].pair
          /\ stack'[Len(stack) + 1].pair = pr
      BY <3>2, <3>3, <2>4
    <3>5. \A i \in 1..Len(stack') : stack'[i].pair \in visited'
      BY <3>4, <3>2, <2>1 DEF Inv
    <3>6. \A i, j \in 1..Len(stack') : stack'[i].pair = stack'[j].pair => i = j
      BY <3>4, <3>1, <2>1 DEF Inv
    <3> QED BY <3>2, <3>4, <3>5, <3>6, <2>3 DEF Inv
  <2> QED BY <2>5, <2>6
<1> QED BY <1>1, <1>2 DEF ANext

(* an injective sequence into a finite set is no longer than the set is large *)
THEOREM InvBoundsDepth == Inv => C14_Terminates
<1> SUFFICES ASSUME Inv PROVE Len(stack) <= Cardinality(Pairs)
  BY DEF C14_Terminates
<1> DEFINE n == Len(stack)
           f == [i \in 1..n |-> stack[i].pair]
<1>1. n \in Nat
  BY DEF Inv
<1>2. f \in Injection(1..n, Pairs)
  BY DEF Inv, Frame, Injection, IsInjective
<1>3. Cardinality(1..n) <= Cardinality(Pairs)
  BY <1>2, PairsFinite, FS_Injection
<1>4. Cardinality(1..n) = n
  BY <1>1, FS_Interval
<1> QED BY <1>3, <1>4
=============================================================================
