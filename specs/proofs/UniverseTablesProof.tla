------------------------- MODULE UniverseTablesProof -------------------------
(* TLAPS proof over Universe.tla ITSELF (machine 1), for ANY set of declared objects and ANY order in which newPkg visits
   TypesInfo.Defs: with the package-scope filter (ScopeFilter = TRUE, the code) the tables Types / Constants / Functions
   are exactly the package-scope view when the visit is over (C13_TablesAreScopeView). Without the filter TLC shows the
   order-dependent counterexample (Universe_A1_bugdemo.cfg).                                                          *)
EXTENDS Universe, TLAPS

ASSUME CodeFilters == ScopeFilter = TRUE

K3 == {"type", "const", "func"}
Done(k) == {o \in Objs \ remaining : o.kind = k /\ o.scope = "pkg"}

TInv == /\ remaining \subseteq Objs
        /\ DOMAIN table = K3
        /\ \A k \in K3 : /\ DOMAIN table[k] = {o.name : o \in Done(k)}
                         /\ \A n \in DOMAIN table[k] : table[k][n] \in Done(k) /\ table[k][n].name = n

LEMMA TInitInv == TInit => TInv
  BY DEF TInit, TInv, Done, K3

LEMMA TStepInv == ASSUME TInv, TNext PROVE TInv'
<1>1. PICK o \in remaining : /\ remaining' = remaining \ {o}
                             /\ table' = IF Passes(o)
                                         THEN [table EXCEPT ![o.kind] = [n \in DOMAIN @ \cup {o.name} |-> IF n = o.name THEN o ELSE @[n]]]
                                         ELSE table
  BY DEF TNext
<1>2. o \in Objs BY <1>1 DEF TInv
<1>3. CASE ~Passes(o)
  <2>1. \A k \in K3 : Done(k)' = Done(k)
    BY <1>1, <1>2, <1>3, CodeFilters DEF Done, Passes, K3
  <2> QED BY <1>1, <1>3, <2>1 DEF TInv
<1>4. CASE Passes(o)
  <2>1. o.kind \in K3 /\ o.scope = "pkg"
    BY <1>4, CodeFilters DEF Passes, K3
  <2>2. Done(o.kind)' = Done(o.kind) \cup {o}
    BY <1>1, <1>2, <2>1 DEF Done
  <2>3. \A k \in K3 : k # o.kind => Done(k)' = Done(k)
    BY <1>1, <1>2 DEF Done
  <2>4. table' = [table EXCEPT ![o.kind] = [n \in DOMAIN table[o.kind] \cup {o.name} |-> IF n = o.name THEN o ELSE table[o.kind][n]]]
    BY <1>1, <1>4
  <2>5. DOMAIN table' = K3
    BY <2>4 DEF TInv
  <2>6. \A k \in K3 : k # o.kind => table'[k] = table[k]
    BY <2>4 DEF TInv
  <2>7. table'[o.kind] = [n \in DOMAIN table[o.kind] \cup {o.name} |-> IF n = o.name THEN o ELSE table[o.kind][n]]
    BY <2>1, <2>4 DEF TInv
  <2>8. remaining' \subseteq Objs
    BY <1>1 DEF TInv
  <2>9. ASSUME NEW k \in K3 PROVE /\ DOMAIN table'[k] = {x.name : x \in Done(k)'}
                                  /\ \A n \in DOMAIN table'[k] : table'[k][n] \in Done(k)' /\ table'[k][n].name = n
    <3>1. CASE k # o.kind
      BY <3>1, <2>3, <2>6 DEF TInv
    <3>2. CASE k = o.kind
      BY <3>2, <2>2, <2>7 DEF TInv
    <3> QED BY <3>1, <3>2
  <2> QED BY <2>5, <2>8, <2>9 DEF TInv
<1> QED BY <1>3, <1>4

THEOREM TInv => C13_TablesAreScopeView
  BY DEF TInv, C13_TablesAreScopeView, ScopeView, Done, K3
=============================================================================
