------------------------- MODULE PipelineSumProof -------------------------
(* TLAPS proofs over Pipeline.tla ITSELF (the module TLC checks for small constants), for ANY set of packages, generators,
   import graph, directory nesting, behaviour configuration, argument menu and number of runs / environment steps:
     - gengo.sum changes only in the save step of a run or between runs            (C07 "gengo.sum only ...", C02)
     - while a run is in progress - and when it has failed or died - gengo.sum is what it was at the start of the run (C02)
     - a run never touches hand-written sources or user files                       (C07)
     - a run changes generated files of the package being processed only            (C07)
     - after a successful All run gengo.sum is canonical and records exactly the load-time hashes of the local packages (C08) *)
EXTENDS Pipeline, TLAPS

SumInv == (pc \notin {"idle", "finish", "finished"}) => sum = snap0.sum
InputsInv == pc # "idle" => (src = snap0.src /\ user = snap0.user)
OutDom == DOMAIN out = Pkgs

LEMMA EnvFacts == ASSUME Env PROVE pc = "idle" /\ pc' = "idle"
  BY DEF Env, EditSrc, ToggleUser, PlantStale, CorruptSum, DelOut, PlantPrev, DelSum, NoiseSum, EnvStep

LEMMA EnvDom == ASSUME Env, OutDom PROVE OutDom'
  BY DEF Env, EditSrc, ToggleUser, PlantStale, CorruptSum, DelOut, PlantPrev, DelSum, NoiseSum, EnvStep, OutDom

THEOREM SumOnlyWhereAllowed == ASSUME Next PROVE (sum' = sum \/ pc = "save" \/ pc = "idle")
<1>1. CASE Env BY <1>1, EnvFacts
<1>2. CASE \E a \in ArgsMenu : StartRun(a) BY <1>2 DEF StartRun, fs
<1>3. CASE Run
  <2>1. CASE SkipCached BY <2>1 DEF SkipCached, fs
  <2>2. CASE BeginPkg BY <2>2 DEF BeginPkg, fs
  <2>3. CASE Callback BY <2>3 DEF Callback, EndRun, fs
  <2>4. CASE WriteOne BY <2>4 DEF WriteOne, EndRun, fs
  <2>5. CASE WritesDone BY <2>5 DEF WritesDone, fs
  <2>6. CASE RemoveOne BY <2>6 DEF RemoveOne
  <2>7. CASE EndPkg BY <2>7 DEF EndPkg, fs
  <2>8. CASE AllDone BY <2>8 DEF AllDone, fs
  <2>9. CASE SaveSum BY <2>9 DEF SaveSum
  <2>10. CASE Finish BY <2>10 DEF Finish, EndRun, fs
  <2>11. CASE Reap BY <2>11 DEF Reap, fs
  <2> QED BY <1>3, <2>1, <2>2, <2>3, <2>4, <2>5, <2>6, <2>7, <2>8, <2>9, <2>10, <2>11 DEF Run
<1> QED BY <1>1, <1>2, <1>3 DEF Next

(* ---- inductive invariants *)
Inv == SumInv /\ InputsInv /\ OutDom

LEMMA InitInv == Init => Inv
  BY DEF Init, Inv, SumInv, InputsInv, OutDom

LEMMA StepInv == ASSUME Inv, [Next]_vars PROVE Inv'
<1>0. CASE UNCHANGED vars BY <1>0 DEF Inv, SumInv, InputsInv, OutDom, vars
<1>1. CASE Env BY <1>1, EnvFacts, EnvDom DEF Inv, SumInv, InputsInv
<1>2. CASE \E a \in ArgsMenu : StartRun(a) BY <1>2 DEF StartRun, fs, FS, Inv, SumInv, InputsInv, OutDom
<1>3. CASE Run
  <2>1. CASE SkipCached BY <2>1 DEF SkipCached, fs, Inv, SumInv, InputsInv, OutDom
  <2>2. CASE BeginPkg BY <2>2 DEF BeginPkg, fs, Inv, SumInv, InputsInv, OutDom
  <2>3. CASE Callback BY <2>3 DEF Callback, EndRun, fs, runctl, Inv, SumInv, InputsInv, OutDom
  <2>4. CASE WriteOne BY <2>4 DEF WriteOne, EndRun, fs, runctl, Inv, SumInv, InputsInv, OutDom
  <2>5. CASE WritesDone BY <2>5 DEF WritesDone, fs, runctl, Inv, SumInv, InputsInv, OutDom
  <2>6. CASE RemoveOne BY <2>6 DEF RemoveOne, Inv, SumInv, InputsInv, OutDom
  <2>7. CASE EndPkg BY <2>7 DEF EndPkg, fs, Inv, SumInv, InputsInv, OutDom
  <2>8. CASE AllDone BY <2>8 DEF AllDone, fs, runctl, Inv, SumInv, InputsInv, OutDom
  <2>9. CASE SaveSum BY <2>9 DEF SaveSum, runctl, Inv, SumInv, InputsInv, OutDom
  <2>10. CASE Finish BY <2>10 DEF Finish, EndRun, fs, runctl, Inv, SumInv, InputsInv, OutDom
  <2>11. CASE Reap BY <2>11 DEF Reap, fs, Inv, SumInv, InputsInv, OutDom
  <2> QED BY <1>3, <2>1, <2>2, <2>3, <2>4, <2>5, <2>6, <2>7, <2>8, <2>9, <2>10, <2>11 DEF Run
<1> QED BY <1>0, <1>1, <1>2, <1>3 DEF Next

THEOREM SpecInv == Spec => []Inv
<1>1. Init => Inv BY InitInv
<1>2. Inv /\ [Next]_vars => Inv' BY StepInv
<1> QED BY <1>1, <1>2, PTL DEF Spec

(* the properties of Pipeline.tla that follow *)
THEOREM Inv => C02_SumUntouchedOnFailure /\ C02_SumUntouchedWhileRunning /\ C07_InputsUntouched
  BY DEF Inv, SumInv, InputsInv, OutDom, C02_SumUntouchedOnFailure, C02_SumUntouchedWhileRunning, C07_InputsUntouched, InRun

(* ---- a run changes generated files of the package being processed only *)
THEOREM OnlyCurrentPkg == ASSUME OutDom, Next, pc # "idle" PROVE \A p \in Pkgs : out'[p] # out[p] => p = cur
<1>1. CASE Env BY <1>1, EnvFacts
<1>2. CASE \E a \in ArgsMenu : StartRun(a) BY <1>2 DEF StartRun, fs
<1>3. CASE Run
  <2>1. CASE SkipCached BY <2>1 DEF SkipCached, fs
  <2>2. CASE BeginPkg BY <2>2 DEF BeginPkg, fs
  <2>3. CASE Callback BY <2>3 DEF Callback, EndRun, fs
  <2>4. CASE WriteOne BY <2>4 DEF WriteOne, EndRun, fs, OutDom
  <2>5. CASE WritesDone BY <2>5 DEF WritesDone, fs
  <2>6. CASE RemoveOne BY <2>6 DEF RemoveOne, OutDom
  <2>7. CASE EndPkg BY <2>7 DEF EndPkg, fs
  <2>8. CASE AllDone BY <2>8 DEF AllDone, fs
  <2>9. CASE SaveSum BY <2>9 DEF SaveSum
  <2>10. CASE Finish BY <2>10 DEF Finish, EndRun, fs
  <2>11. CASE Reap BY <2>11 DEF Reap, fs
  <2> QED BY <1>3, <2>1, <2>2, <2>3, <2>4, <2>5, <2>6, <2>7, <2>8, <2>9, <2>10, <2>11 DEF Run
<1> QED BY <1>1, <1>2, <1>3 DEF Next

(* ---- after a successful All run gengo.sum is canonical and records exactly the load-time hashes (C08), given that the code
        always rewrites the file (SaveAlways - the alternative is refuted by TLC, Pipeline_sib2_savedemo.cfg) *)
ASSUME CodeSavesAlways == SaveAlways = TRUE

SaveInv == (pc \in {"finish", "finished"} /\ args.all) => (sum.present /\ sum.canon /\ sum.m = hload)
HloadInv == pc # "idle" => \A p \in Pkgs \ Local(args) : hload[p] = None
Inv2 == SaveInv /\ HloadInv

LEMMA InitInv2 == Init => Inv2
  BY DEF Init, Inv2, SaveInv, HloadInv

LEMMA StepInv2 == ASSUME Inv2, [Next]_vars PROVE Inv2'
<1>0. CASE UNCHANGED vars BY <1>0 DEF Inv2, SaveInv, HloadInv, vars, Local
<1>1. CASE Env BY <1>1, EnvFacts DEF Inv2, SaveInv, HloadInv
<1>2. CASE \E a \in ArgsMenu : StartRun(a) BY <1>2 DEF StartRun, fs, Inv2, SaveInv, HloadInv, Local
<1>3. CASE Run
  <2>1. CASE SkipCached BY <2>1 DEF SkipCached, fs, Inv2, SaveInv, HloadInv, Local
  <2>2. CASE BeginPkg BY <2>2 DEF BeginPkg, fs, Inv2, SaveInv, HloadInv, Local
  <2>3. CASE Callback BY <2>3 DEF Callback, EndRun, fs, runctl, Inv2, SaveInv, HloadInv, Local
  <2>4. CASE WriteOne BY <2>4 DEF WriteOne, EndRun, fs, runctl, Inv2, SaveInv, HloadInv, Local
  <2>5. CASE WritesDone BY <2>5 DEF WritesDone, fs, runctl, Inv2, SaveInv, HloadInv, Local
  <2>6. CASE RemoveOne BY <2>6 DEF RemoveOne, Inv2, SaveInv, HloadInv, Local
  <2>7. CASE EndPkg BY <2>7 DEF EndPkg, fs, Inv2, SaveInv, HloadInv, Local
  <2>8. CASE AllDone BY <2>8 DEF AllDone, fs, runctl, Inv2, SaveInv, HloadInv, Local
  <2>9. CASE SaveSum BY <2>9, CodeSavesAlways DEF SaveSum, runctl, Inv2, SaveInv, HloadInv, Local
  <2>10. CASE Finish BY <2>10 DEF Finish, EndRun, fs, runctl, Inv2, SaveInv, HloadInv, Local
  <2>11. CASE Reap BY <2>11 DEF Reap, fs, Inv2, SaveInv, HloadInv, Local
  <2> QED BY <1>3, <2>1, <2>2, <2>3, <2>4, <2>5, <2>6, <2>7, <2>8, <2>9, <2>10, <2>11 DEF Run
<1> QED BY <1>0, <1>1, <1>2, <1>3 DEF Next

THEOREM SpecInv2 == Spec => []Inv2
<1>1. Init => Inv2 BY InitInv2
<1>2. Inv2 /\ [Next]_vars => Inv2' BY StepInv2
<1> QED BY <1>1, <1>2, PTL DEF Spec

THEOREM Inv2 /\ DOMAIN hload = Pkgs => C08_SumAfterSuccess
  BY DEF Inv2, SaveInv, HloadInv, C08_SumAfterSuccess
=============================================================================
