------------------------- MODULE InflectorCacheProof -------------------------
(* TLAPS proof over InflectorCache.tla ITSELF (the module TLC checks for 3-4 goroutines and 2 keys), for ANY number of
   goroutines, keys and calls: with the code's policy (SeedOutputs = FALSE) every value a caller returns is the memoised
   function's value for its key (C20_ReturnsF) and nobody waits on a once that nobody runs (C20_NoLostWaiter).
   The other policy is refuted by TLC (InflectorCache_A_seeddemo.cfg).                                                 *)
EXTENDS InflectorCache, TLAPS

ASSUME CodePolicy == SeedOutputs = FALSE
ASSUME KeysNonEmpty == Keys # {}

PCs == {"idle", "called", "have", "computing", "waiting", "ret"}
TypeOK == /\ once \in [Keys -> {"idle", "running", "done"}]
          /\ pc \in [Goroutines -> PCs]
          /\ cur \in [Goroutines -> Keys]
          /\ DOMAIN val = Keys

DoneHasValue == \A k \in Keys : once[k] = "done" => val[k] = F(k)
RetMeansDone == \A g \in Goroutines : pc[g] = "ret" => once[cur[g]] = "done"

Inv == TypeOK /\ DoneHasValue /\ RetMeansDone /\ C20_NoLostWaiter /\ C20_ReturnsF

LEMMA InitInv == CInit => Inv
  BY KeysNonEmpty DEF CInit, Inv, TypeOK, DoneHasValue, RetMeansDone, C20_NoLostWaiter, C20_ReturnsF, PCs

LEMMA StepInv == Inv /\ [CNext]_cvars => Inv'
<1> SUFFICES ASSUME Inv, [CNext]_cvars PROVE Inv'
  OBVIOUS
<1> USE DEF Inv, TypeOK, DoneHasValue, RetMeansDone, C20_NoLostWaiter, C20_ReturnsF, PCs, F
<1>0. CASE UNCHANGED cvars
  BY <1>0 DEF cvars
<1>1. ASSUME NEW g \in Goroutines, NEW k \in Keys, Call(g, k) PROVE Inv'
  BY <1>1 DEF Call
<1>2. ASSUME NEW g \in Goroutines, LoadOrStore(g) PROVE Inv'
  BY <1>2 DEF LoadOrStore
<1>3. ASSUME NEW g \in Goroutines, Enter(g) PROVE Inv'
  BY <1>3 DEF Enter
<1>4. ASSUME NEW g \in Goroutines, Compute(g) PROVE Inv'
  BY <1>4, CodePolicy DEF Compute
<1>5. ASSUME NEW g \in Goroutines, Wake(g) PROVE Inv'
  BY <1>5 DEF Wake
<1>6. ASSUME NEW g \in Goroutines, Return(g) PROVE Inv'
  BY <1>6 DEF Return
<1>7. CASE AllDone /\ UNCHANGED cvars
  BY <1>7 DEF cvars
<1> QED
  BY <1>0, <1>1, <1>2, <1>3, <1>4, <1>5, <1>6, <1>7 DEF CNext

THEOREM Safety == CSpec => [](C20_ReturnsF /\ C20_NoLostWaiter)
<1>1. CSpec => []Inv
  BY InitInv, StepInv, PTL DEF CSpec
<1>2. Inv => C20_ReturnsF /\ C20_NoLostWaiter
  BY DEF Inv
<1> QED
  BY <1>1, <1>2, PTL
=============================================================================
