-------------------------------- MODULE Json --------------------------------
(* Stub of the CommunityModules Json module for the proof system only (tlapm does not ship it): the proofs never look
   inside these operators; TLC uses the real module from its classpath. *)
ToJson(value) == value
ndJsonDeserialize(file) == file
=============================================================================
