---------------------------- MODULE DispatchProof ----------------------------
(* TLAPS proof over Dispatch.tla ITSELF, for ARBITRARY tag sets at the three levels and ANY generator name (TLC checks the
   same over the 7 x 7 x 7 placement lattice of one tag family): the decisive tag gengo:<name> is taken from the
   declaration if it is there, else from the package, else from the globals, and it alone decides; only when no level has
   it does a sub-tag gengo:<name>:<sub> - of any level - enable the generator.  (property C06)                           *)
EXTENDS Dispatch, TLAPS

KeyOf(name) == <<"gengo">> \o name
SubTagOf(key, k) == IsPrefixOf(key, k) /\ Len(k) > Len(key)

LEMMA EffDomain == ASSUME NEW g, NEW p, NEW d
                   PROVE DOMAIN Effective(g, p, d) = Keys(g) \cup Keys(p) \cup Keys(d)
  BY DEF Effective

THEOREM DeclarationWins ==
    ASSUME NEW g, NEW p, NEW d, NEW name, KeyOf(name) \in Keys(d)
    PROVE Enabled(name, Effective(g, p, d)) <=> (ValueOf(d, KeyOf(name)) # "false")
  BY EffDomain DEF Enabled, Effective, KeyOf

THEOREM PackageWinsOverGlobals ==
    ASSUME NEW g, NEW p, NEW d, NEW name, KeyOf(name) \notin Keys(d), KeyOf(name) \in Keys(p)
    PROVE Enabled(name, Effective(g, p, d)) <=> (ValueOf(p, KeyOf(name)) # "false")
  BY EffDomain DEF Enabled, Effective, KeyOf

THEOREM GlobalsLast ==
    ASSUME NEW g, NEW p, NEW d, NEW name, KeyOf(name) \notin Keys(d), KeyOf(name) \notin Keys(p), KeyOf(name) \in Keys(g)
    PROVE Enabled(name, Effective(g, p, d)) <=> (ValueOf(g, KeyOf(name)) # "false")
  BY EffDomain DEF Enabled, Effective, KeyOf

THEOREM SubTagsOnlyWithoutDecisiveTag ==
    ASSUME NEW g, NEW p, NEW d, NEW name,
           KeyOf(name) \notin Keys(d), KeyOf(name) \notin Keys(p), KeyOf(name) \notin Keys(g)
    PROVE Enabled(name, Effective(g, p, d)) <=> \E k \in Keys(g) \cup Keys(p) \cup Keys(d) : SubTagOf(KeyOf(name), k)
  BY EffDomain DEF Enabled, KeyOf, SubTagOf

(* a sub-tag of a generator with a longer name says nothing about the shorter-named one: gengo:ab:x is no sub-tag of gengo:a *)
THEOREM NoPrefixConfusion ==
    ASSUME NEW k, NEW n1, NEW n2, Len(n1) = 1, Len(n2) = 1, n1[1] # n2[1], n1 \in Seq(STRING), n2 \in Seq(STRING),
           k \in Seq(STRING), SubTagOf(KeyOf(n2), k)
    PROVE ~SubTagOf(KeyOf(n1), k)
  BY DEF SubTagOf, KeyOf, IsPrefixOf
=============================================================================
