---------------------------- MODULE PartialStruct ----------------------------
(* devpkg/partialstruct  -- property C18: `type x origin.T` yields a struct with the origin's fields minus the omitted
   ones, in order, identical types and tags unless replaced; DeepCopyAs maps it back to the origin; anything that is not
   a struct defined from another named type is an error.

   An origin is a sequence of field kinds; field i is named F<i> and carries the tag class TagClassAt(shift, i).
   Retained(origin, omit, replace) is the sequence the generated struct must have: [idx, replaced].              *)
EXTENDS Naturals, Sequences, FiniteSets, TLC, Json

CONSTANTS Kinds, MaxFields, TagClasses, ErrorShapes

TagClassAt(shift, i) == TagClasses[((i + shift) % Len(TagClasses)) + 1]

RECURSIVE Origins(_)
Origins(n) == IF n = 0 THEN {<<>>} ELSE Origins(n - 1) \cup {Append(o, k) : o \in {x \in Origins(n - 1) : Len(x) = n - 1}, k \in Kinds}
NoDup(o) == \A i, j \in 1..Len(o) : i # j => o[i] # o[j]

(* the field list of the generated struct: origin order, omitted fields gone, the replaced field flagged *)
Retained(origin, omit, replace) ==
    LET idx == SelectSeq([i \in 1..Len(origin) |-> i], LAMBDA i : i \notin omit)
    IN [k \in 1..Len(idx) |-> [idx |-> idx[k], replaced |-> (replace # "none" /\ origin[idx[k]] = "sub")]]

VARIABLES origin, shift, omit, replace, errshape
GenInit == \/ /\ errshape = "none"
              /\ origin \in {o \in Origins(MaxFields) : o # <<>> /\ NoDup(o)}
              /\ shift \in 0..(Len(TagClasses) - 1)
              /\ omit \in {{}, {1}, {Len(origin)}, 1..Len(origin)}
              (* the replace tag may name a field that an omit tag names as well: omitted wins *)
              /\ replace \in (IF \E i \in 1..Len(origin) : origin[i] = "sub" THEN {"none", "type", "typeAndTag"} ELSE {"none"})
           \/ /\ errshape \in ErrorShapes /\ origin = <<>> /\ shift = 0 /\ omit = {} /\ replace = "none"
GenNone == FALSE /\ UNCHANGED <<origin, shift, omit, replace, errshape>>

EmitCase == PrintT(<<"CASE", ToJson([fam |-> "partial", case |-> [origin |-> origin, shift |-> shift, omit |-> omit, replace |-> replace, errshape |-> errshape,
                                                                    tags |-> [i \in 1..Len(origin) |-> TagClassAt(shift, i)]]])>>)
=============================================================================
