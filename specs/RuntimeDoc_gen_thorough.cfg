CONSTANTS Kinds <- MCKinds
 DocPatterns <- MCDocPatterns
 FieldPatterns <- MCFieldPatterns
 FieldDocPatterns <- MCFieldDocPatterns
INIT GenInit
NEXT GenNone
INVARIANT EmitCase
CHECK_DEADLOCK FALSE
