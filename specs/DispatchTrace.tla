--------------------------- MODULE DispatchTrace ---------------------------
(* Loop C for C06: the callbacks gengo really made, per run, against ExpectedCalls. *)
EXTENDS Dispatch, IOUtils

RECURSIVE ExpectedCalls(_, _, _, _)
ExpectedCalls(gs, i, globals, pkgtags) ==
    IF i > Len(gs) THEN <<>> ELSE ExpectedFor(gs[i], globals, pkgtags) \o ExpectedCalls(gs, i + 1, globals, pkgtags)

Trace == ndJsonDeserialize(IOEnv.TRACE)
VARIABLES l, bad

Conjuncts == {"C06_NoFailure", "C06_Calls", "C06_CallsNextPackage", "C06_OnlyPackageLevel", "C06_DefersOnce", "C06_DefersAfterLastCall", "C06_DefersBeforeWrite"}

Filter(calls, P(_)) == LET idx == SelectSeq([i \in 1..Len(calls) |-> i], LAMBDA i : P(calls[i])) IN [k \in 1..Len(idx) |-> calls[idx[k]]]
Proj(calls) == [i \in 1..Len(calls) |-> [kind |-> calls[i].kind, gen |-> calls[i].gen, type |-> calls[i].type]]

(* names of generators as logged -> generator ids of the specification *)
GenId(n) == IF n = "a" THEN "a" ELSE IF n = "ab" THEN "ab" ELSE "acb"

SameCalls(obs, want) == {obs[i] : i \in 1..Len(obs)} = {want[i] : i \in 1..Len(want)} /\ Len(obs) = Len(want)

Holds(c, r) ==
    LET o == r.obs
        cs == r.case
        tc == Filter(o.calls, LAMBDA x : x.kind \in {"type", "alias"} /\ x.pkg = "d")
        te == Filter(o.calls, LAMBDA x : x.kind \in {"type", "alias"} /\ x.pkg = "e")
        df == Filter(o.calls, LAMBDA x : x.kind = "defer")
        want == ExpectedCalls(cs.gens, 1, cs.globals, cs.pkgtags)
    IN CASE c = "C06_NoFailure" -> ~o.failed /\ ~o.died /\ o.panic = ""
         (* exactly once for every enabled declaration and for nothing else; the statement prescribes no order *)
         [] c = "C06_Calls" -> SameCalls([i \in 1..Len(tc) |-> [kind |-> tc[i].kind, gen |-> GenId(tc[i].gen), type |-> tc[i].type]], want)
         (* the package generated next in the same run has the same declarations and no package-level tags: its decisions are
            those of the globals and the declarations alone, and nothing of d's reaches it *)
         [] c = "C06_CallsNextPackage" ->
               /\ SameCalls([i \in 1..Len(te) |-> [kind |-> te[i].kind, gen |-> GenId(te[i].gen), type |-> te[i].type]], ExpectedCalls(cs.gens, 1, cs.globals, <<>>))
               /\ \A i \in 1..Len(o.calls) : o.calls[i].pkg \in {"d", "e"}
         [] c = "C06_OnlyPackageLevel" -> \A i \in 1..Len(tc) : tc[i].obj_kind = (IF tc[i].kind = "alias" THEN "pkgscope-alias" ELSE "pkgscope-defined")
         (* every registered deferred callback ran exactly once: the harness registers one for each call whose planned
            behaviour is render_defer*, and a nested one from inside the callback of D01's *)
         [] c = "C06_DefersOnce" ->
               \A i \in 1..Len(tc) :
                  LET n == Cardinality({j \in 1..Len(df) : df[j].gen = tc[i].gen /\ df[j].type = tc[i].type})
                      nn == Cardinality({j \in 1..Len(df) : df[j].gen = tc[i].gen /\ df[j].type = tc[i].type \o "/nested"})
                      n2 == Cardinality({j \in 1..Len(df) : df[j].gen = tc[i].gen /\ df[j].type = tc[i].type \o "/nested2"})
                  IN IF tc[i].gen = "ab"        \* renders nothing from GenerateType and registers one callback for every type it is given
                     THEN n = 1 /\ nn = 0 /\ n2 = 0
                     ELSE /\ n = (IF tc[i].type \in {"D01", "D02", "D05", "D06", "D13", "D14", "D25", "D26"} THEN 1 ELSE 0)
                          /\ nn = (IF tc[i].type \in {"D01", "D05", "D13", "D25"} THEN 1 ELSE 0)
                          /\ n2 = (IF tc[i].type = "D01" THEN 1 ELSE 0)
         (* ... after the package's last GenerateType / GenerateAliasType of that generator *)
         [] c = "C06_DefersAfterLastCall" ->
               \A i \in 1..Len(o.calls) : \A j \in 1..Len(o.calls) :
                  (o.calls[i].kind = "defer" /\ o.calls[j].kind \in {"type", "alias"} /\ o.calls[i].gen = o.calls[j].gen /\ o.calls[i].pkg = o.calls[j].pkg) => j < i
         (* ... and before the generator's file is written *)
         [] c = "C06_DefersBeforeWrite" -> \A i \in 1..Len(df) : df[i].own_same

Failed(r) == {c \in Conjuncts : ~Holds(c, r)}

JInit == l = 1 /\ bad = {} /\ gp = "none" /\ pp = "none" /\ gens = <<>>
JNext == /\ l <= Len(Trace)
         /\ l' = l + 1
         /\ LET r == Trace[l]
                f == Failed(r)
            IN bad' = IF f = {} THEN bad ELSE bad \cup {[id |-> r.id, failed |-> f]}
         /\ UNCHANGED <<gp, pp, gens>>

Verdict == l = Len(Trace) + 1 =>
             PrintT(<<"VERDICT", ToJson([consumed |-> l - 1, bad |-> bad, stats |-> [x |-> 0]])>>)
=============================================================================
