CONSTANTS MaxFrags = 3
 Kinds = {"group1", "var", "grouped", "type", "const"}
 Noises = {"no_final_newline"}
 FirstNoises = {"no_final_newline"}
 RefModes = {"none"}
 Modules = {"go1.24"}
INIT GenInit
NEXT GenNext
INVARIANT EmitCase
CHECK_DEADLOCK FALSE
