CONSTANT MaxLen = 11
INIT GenInit
NEXT GenNext
INVARIANT DesignTotal DesignNonEmpty DesignLossless
CHECK_DEADLOCK FALSE
