CONSTANTS MaxLen = 6
 Alphabet = {32, 43, 64, 61, 107, 118}
 Kinds = {"B", "C", "G", "D", "T"}
 Contexts = {"top", "struct", "const"}
 TrailingInLeading = FALSE
INIT GenInitLay
NEXT GenNextLay
INVARIANT EmitCase
CHECK_DEADLOCK FALSE
