CONSTANTS Menu = "C05"
 MaxTail = 2
 Layouts = {"siblings"}
 AllPlants = FALSE
 Lite = TRUE
 Flavours <- Flav_stateful
INIT HInit
NEXT HNext
INVARIANT EmitCase
CHECK_DEADLOCK FALSE
