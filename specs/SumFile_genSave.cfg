CONSTANTS PathSeq <- MCPathSeq
 Hashes <- MCHashes
 RawLines <- MCRawLines
 MaxLines = 0
INIT GenInitSave
NEXT GenNone
INVARIANT EmitCase
CHECK_DEADLOCK FALSE
