--------------------------- MODULE CommentsTrace ---------------------------
(* Loop C for C12: judges ExtractCommentTags results and Doc / Comment attribution per declaration. *)
EXTENDS Comments, IOUtils

Trace == ndJsonDeserialize(IOEnv.TRACE)

VARIABLES l, bad

Conjuncts == {"C12_NoPanic", "C12_TagMap", "C12_Others", "C12_AllDecls", "C12_Doc", "C12_DocTags", "C12_Comment", "C12_EveryCall"}

ToSet(s) == {s[i] : i \in 1..Len(s)}

Holds(c, r) ==
    LET o == r.obs
        cs == r.case
    IN
    IF cs.part = "tags"
    THEN LET mk == ToSet(cs.markers) IN
         CASE c = "C12_NoPanic" -> ~o.panicked
           [] c = "C12_TagMap"  -> o.panicked \/
                                     ( /\ {<<o.tags[i][1], o.tags[i][2]>> : i \in 1..Len(o.tags)} = TagMap(cs.lines, mk)
                                       /\ Cardinality({o.tags[i][1] : i \in 1..Len(o.tags)}) = Len(o.tags) )
           [] c = "C12_Others"  -> o.panicked \/ [i \in 1..Len(o.others) |-> Trim(o.others[i])] = OtherLines(cs.lines, mk)
           [] OTHER -> TRUE
    ELSE LET lay == cs.layout IN
         CASE c = "C12_NoPanic"  -> ~o.panicked
           [] c = "C12_AllDecls" -> o.panicked \/ {o.decls[i].line : i \in 1..Len(o.decls)} = DeclLines(lay)
           [] c = "C12_Doc"      -> o.panicked \/ \A i \in 1..Len(o.decls) :
                                       o.decls[i].line \in DeclLines(lay) => o.decls[i].doc_lines = ExpectedDoc(lay, o.decls[i].line).lines
           [] c = "C12_DocTags"  -> o.panicked \/ \A i \in 1..Len(o.decls) :
                                       o.decls[i].line \in DeclLines(lay) =>
                                          /\ o.decls[i].doc_tagvals = ExpectedDoc(lay, o.decls[i].line).tagvals
                                          /\ ToSet(o.decls[i].doc_tagkeys) \subseteq {"t"}
           [] c = "C12_Comment"  -> o.panicked \/ \A i \in 1..Len(o.decls) :
                                       (o.decls[i].line \in DeclLines(lay) /\ CommentJudged(lay[o.decls[i].line])) => o.decls[i].comment = ExpectedComment(lay, o.decls[i].line)
           (* "every call": the answers to a second call, made after the caller overwrote what the first one returned *)
           [] c = "C12_EveryCall" -> o.panicked \/ \A i \in 1..Len(o.decls) :
                                       o.decls[i].line \in DeclLines(lay) =>
                                          /\ o.decls[i].doc_lines2 = ExpectedDoc(lay, o.decls[i].line).lines
                                          /\ o.decls[i].doc_tagvals2 = ExpectedDoc(lay, o.decls[i].line).tagvals
                                          /\ CommentJudged(lay[o.decls[i].line]) => o.decls[i].comment2 = ExpectedComment(lay, o.decls[i].line)
           [] OTHER -> TRUE

Failed(r) == {c \in Conjuncts : ~Holds(c, r)}

JInit == l = 1 /\ bad = {} /\ part = "tags" /\ lines = <<>> /\ ctx = "none" /\ layout = <<>>
JNext == /\ l <= Len(Trace)
         /\ l' = l + 1
         /\ LET r == Trace[l]
                f == Failed(r)
            IN bad' = IF f = {} THEN bad ELSE bad \cup {[id |-> r.id, failed |-> f]}
         /\ UNCHANGED vars

Verdict == l = Len(Trace) + 1 =>
             PrintT(<<"VERDICT", ToJson([consumed |-> l - 1, bad |-> bad, stats |-> [x |-> 0]])>>)
=============================================================================
