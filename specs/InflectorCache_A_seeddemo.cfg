CONSTANTS Goroutines = {g1, g2}
 Keys = {k1, k2}
 MaxCalls = 2
 SeedOutputs = TRUE
SPECIFICATION CSpec
INVARIANT C20_ReturnsF
CHECK_DEADLOCK FALSE
