CONSTANTS Depth = 3
 Width = 2
 LeafIds = {"int", "abcD", "self"}
INIT GenInit
NEXT GenNext
INVARIANT EmitCase
CHECK_DEADLOCK FALSE
