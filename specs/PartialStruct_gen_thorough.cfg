CONSTANTS Kinds = {"scalar", "slice", "map", "pointer", "foreignStd", "foreignLocal", "error", "iface", "sub", "subB"}
 MaxFields = 3
 TagClasses <- MCTagClasses
 ErrorShapes = {"notStruct", "plainStruct", "originScalar"}
INIT GenInit
NEXT GenNone
INVARIANT EmitCase
CHECK_DEADLOCK FALSE
