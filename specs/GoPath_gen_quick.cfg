CONSTANTS Segments = {"a", "vendor", "b.c", "x-y"}
 MaxSegs = 5
INIT GenInit
NEXT GenNext
INVARIANT EmitCase
CHECK_DEADLOCK FALSE
