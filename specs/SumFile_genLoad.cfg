CONSTANTS PathSeq <- MCPathSeq
 Hashes <- MCHashes
 RawLines <- MCRawLines
 MaxLines = 3
INIT GenInitLoad
NEXT GenNone
INVARIANT EmitCase
CHECK_DEADLOCK FALSE
