CONSTANTS Objs <- MCObjs
 ScopeFilter = TRUE
 DagPkgs <- MCDagPkgs
 DagImports <- MCDagImports
 DagRoots = {"a"}
 CreateAfterDeps = TRUE
 Features <- MCFeatures
 MaxFeatures = 3
INIT GenInit3
NEXT GenNext3
INVARIANT EmitCase
CHECK_DEADLOCK FALSE
