CONSTANTS Objs <- MCObjs
 ScopeFilter = TRUE
 DagPkgs <- MCDagPkgs
 DagImports <- MCDagImports
 DagRoots = {"a", "c"}
 CreateAfterDeps = FALSE
 Features <- MCFeatures
 MaxFeatures = 0
INIT RInit2
NEXT RNext2
INVARIANT C13_ImportsResolved
CHECK_DEADLOCK FALSE
