CONSTANTS MaxFrags = 4
 Kinds = {"group1", "var", "grouped", "type", "const", "func"}
 Noises = {"no_final_newline"}
 FirstNoises = {"no_final_newline"}
 RefModes = {"none"}
 Modules = {"go1.24", "go1.18"}
INIT GenInit
NEXT GenNext
INVARIANT EmitCase
CHECK_DEADLOCK FALSE
