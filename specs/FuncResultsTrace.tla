-------------------------- MODULE FuncResultsTrace --------------------------
(* Loop C for C14: one line per function or method on which ResultsOf was called (in a supervised child process with a
   bounded stack and a per-unit time budget). *)
EXTENDS MC_FuncResults, IOUtils

Trace == ndJsonDeserialize(IOEnv.TRACE)
VARIABLES l, bad

Conjuncts == {"C14_Terminates", "C14_NoPanic", "C14_DeclaredN", "C14_OneListPerResult", "C14_NonEmpty", "C14_Assignable", "C14_SameOnEveryCall", "C14_LiteralsExact", "C14_OnlyPossible"}

Holds(c, r) ==
    LET o == r.obs
        done == ~o.fatal /\ ~o.timeout /\ ~o.panicked
    IN CASE c = "C14_Terminates"       -> ~o.fatal /\ ~o.timeout
         [] c = "C14_NoPanic"          -> ~o.panicked
         [] c = "C14_DeclaredN"        -> ~done \/ o.n = o.declared_n
         [] c = "C14_OneListPerResult" -> ~done \/ o.declared_n = 0 \/ Len(o.lens) = o.declared_n
         [] c = "C14_NonEmpty"         -> ~done \/ \A i \in 1..Len(o.lens) : o.lens[i] > 0
         [] c = "C14_Assignable"       -> ~done \/ o.not_assignable = <<>>
         (* ... asked twice in a row, and once more after every other function of every loaded package has been asked *)
         [] c = "C14_SameOnEveryCall"  -> ~done \/ (o.again_equal /\ o.later_equal)
         (* "only possible results": a function that returns an expression over a constant of its own reports that value *)
         (* (a type is always a possible answer; a CONSTANT must be the value the function returns) *)
         [] c = "C14_OnlyPossible"     -> ~done \/ r.case.shape \notin {"localconst", "localconststr"} \/
                                             (Len(o.alts) = 1 /\ \A i \in 1..Len(o.alts[1]) :
                                                 o.alt_is_const[1][i] => o.alts[1][i] = LocalConst(r.case.shape, r.case.idx)[1][1])
         [] c = "C14_LiteralsExact"    -> ~done \/ r.case.shape \notin DOMAIN LiteralOnly \/ o.alts = LiteralOnly[r.case.shape]

Failed(r) == {c \in Conjuncts : ~Holds(c, r)}

JInit == l = 1 /\ bad = {} /\ stack = <<>> /\ visited = {} /\ asked = {} /\ s1 = "-" /\ s2 = "-" /\ s3 = "-"
JNext == /\ l <= Len(Trace)
         /\ l' = l + 1
         /\ LET r == Trace[l]
                f == Failed(r)
            IN bad' = IF f = {} THEN bad ELSE bad \cup {[id |-> r.id, failed |-> f]}
         /\ UNCHANGED <<stack, visited, asked, s1, s2, s3>>

Verdict == l = Len(Trace) + 1 =>
             PrintT(<<"VERDICT", ToJson([consumed |-> l - 1, bad |-> bad, stats |-> [x |-> 0]])>>)
=============================================================================
