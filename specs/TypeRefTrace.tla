--------------------------- MODULE TypeRefTrace ---------------------------
(* Loop C for C15: judges recorded calls of ParseTypeRef / String / ParseRef / Ref /
   PkgImportPathAndExpose / snippet.ID-through-the-naming-system against TypeRef.tla. *)
EXTENDS TypeRef, IOUtils

Trace == ndJsonDeserialize(IOEnv.TRACE)

VARIABLES l, bad, insane

Conjuncts == {"C15_ParseOK", "C15_Tree", "C15_Print", "C15_SplitAgree", "C15_Rewrite", "C15_Registered"}

Range(f) == {f[i] : i \in DOMAIN f}

ImportPaths(o) == {o.imports[i][1] : i \in 1..Len(o.imports)}
Names(o) == [p \in ImportPaths(o) |-> (CHOOSE i \in 1..Len(o.imports) : o.imports[i][1] = p)]
NameOf(o, p) == o.imports[Names(o)[p]][2]
NameMap(o) == [p \in ImportPaths(o) |-> NameOf(o, p)]

Holds(c, r) ==
    LET o == r.obs
        tr == r.case.tree
        s == r.conc.s
        self == r.case.self
        rooted == tr.path # <<>>
        need == Paths(tr) \ {self}
    IN
    CASE c = "C15_ParseOK"    -> ~o.panicked /\ ~o.parse_err
      [] c = "C15_Tree"       -> o.panicked \/ o.parse_err \/ (o.parsed = tr /\ Parse(s).ok /\ Parse(s).t = o.parsed)
      [] c = "C15_Print"      -> o.panicked \/ o.parse_err \/ o.printed = s
      [] c = "C15_SplitAgree" -> ~rooted \/ ( /\ ~o.ref_err
                                              /\ o.ref_path = tr.path
                                              /\ o.ref_name = SubSeq(s, SplitPoint(s) + 1, Len(s))
                                              /\ o.ref_string = s
                                              /\ o.expose_path = tr.path
                                              /\ o.expose_name = tr.name )
      [] c = "C15_Registered" -> ~rooted \/ o.render_panicked \/
                                   (ImportPaths(o) = need /\ \A p \in need : NameOf(o, p) # <<>>)
      [] c = "C15_Rewrite"    -> ~rooted \/ ( /\ ~o.render_panicked
                                              /\ (need \subseteq ImportPaths(o)) =>
                                                    o.rendered = Show(Rewrite(tr, self, NameMap(o))) )

Failed(r) == {c \in Conjuncts : ~Holds(c, r)}

JInit == l = 1 /\ bad = {} /\ insane = 0 /\ t = Node("int", <<>>)
JNext == /\ l <= Len(Trace)
         /\ l' = l + 1
         /\ LET r == Trace[l]
                f == Failed(r)
            IN /\ bad' = IF f = {} THEN bad ELSE bad \cup {[id |-> r.id, failed |-> f]}
               /\ insane' = IF r.conc.s = Show(r.case.tree) THEN insane ELSE insane + 1
         /\ UNCHANGED t

Verdict == l = Len(Trace) + 1 =>
             PrintT(<<"VERDICT", ToJson([consumed |-> l - 1, bad |-> bad, stats |-> [insane |-> insane]])>>)
==========================================================================
