------------------------------ MODULE TypeRef ------------------------------
(* pkg/types/ref.go (ParseTypeRef, TypeRef.String, ParseRef, Ref), gengo.PkgImportPathAndExpose and
   the naming system's rewrite of nested package paths (namer.processName)   -- property C15.

   A reference is a tree  [path, name, args]  (path and name are sequences of one-character
   strings, args a sequence of trees). Text is a sequence of one-character strings so that the
   specification can index it: the parser below works character by character with a bracket
   DEPTH counter, which is what "nested ... of any depth" requires.                          *)
EXTENDS Naturals, Sequences, FiniteSets, TLC, Json

CONSTANTS Depth, Width, LeafIds

(* concrete leaves used by the generation machine *)
Leaf(id) ==
    CASE id = "int"  -> [path |-> <<>>, name |-> <<"i", "n", "t">>]
      [] id = "pA"   -> [path |-> <<"p">>, name |-> <<"A">>]
      [] id = "abcD" -> [path |-> <<"a", ".", "b", "/", "c">>, name |-> <<"D">>]
      [] id = "hv2E" -> [path |-> <<"h", ".", "i", "o", "/", "x", "/", "v", "2">>, name |-> <<"E">>]
      [] id = "self" -> [path |-> <<"s", ".", "i", "o", "/", "m", "e">>, name |-> <<"F">>]

SelfPath == Leaf("self").path

Node(id, args) == [path |-> Leaf(id).path, name |-> Leaf(id).name, args |-> args]

RECURSIVE Trees(_)
Trees(d) == IF d <= 1 THEN {Node(x, <<>>) : x \in LeafIds}
            ELSE LET sub == Trees(d - 1)
                     argLists == UNION {[1..n -> sub] : n \in 0..Width}
                 IN {Node(x, a) : x \in LeafIds, a \in argLists}

VARIABLE t    \* the reference under test (generation machine: every tree within bounds is an initial state)

GenInit == t \in Trees(Depth)
GenNext == FALSE /\ t' = t

--------------------------------------------------------------------------
(* Printer *)
RECURSIVE Show(_)
RECURSIVE ShowArgs(_, _)
ShowArgs(args, i) ==
    IF i > Len(args) THEN <<>>
    ELSE (IF i > 1 THEN <<",">> ELSE <<>>) \o Show(args[i]) \o ShowArgs(args, i + 1)
Show(r) ==
    (IF r.path # <<>> THEN r.path \o <<".">> ELSE <<>>) \o r.name \o
    (IF r.args # <<>> THEN <<"[">> \o ShowArgs(r.args, 1) \o <<"]">> ELSE <<>>)

(* Parser: first '[' splits head from the bracketed list; the list is split at commas of depth 0;
   a head is split at its last '.'. *)
RECURSIVE IdxFrom(_, _, _)
IdxFrom(s, c, i) == IF i > Len(s) THEN 0 ELSE IF s[i] = c THEN i ELSE IdxFrom(s, c, i + 1)
IndexOf(s, c) == IdxFrom(s, c, 1)
RECURSIVE LastIdxFrom(_, _, _)
LastIdxFrom(s, c, i) == IF i < 1 THEN 0 ELSE IF s[i] = c THEN i ELSE LastIdxFrom(s, c, i - 1)
LastIndexOf(s, c) == LastIdxFrom(s, c, Len(s))

(* positions of the commas at bracket depth 0, scanning left to right with a depth counter *)
RECURSIVE TopCommas(_, _, _, _)
TopCommas(s, i, depth, acc) ==
    IF i > Len(s) THEN acc
    ELSE LET c == s[i] IN
         IF c = "," /\ depth = 0 THEN TopCommas(s, i + 1, depth, Append(acc, i))
         ELSE TopCommas(s, i + 1, IF c = "[" THEN depth + 1 ELSE IF c = "]" /\ depth > 0 THEN depth - 1 ELSE depth, acc)

SplitTop(s) == LET cuts == <<0>> \o TopCommas(s, 1, 0, <<>>) \o <<Len(s) + 1>>
               IN [k \in 1..(Len(cuts) - 1) |-> SubSeq(s, cuts[k] + 1, cuts[k + 1] - 1)]

ParseHead(s) == LET j == LastIndexOf(s, ".") IN
                IF j > 1 THEN [path |-> SubSeq(s, 1, j - 1), name |-> SubSeq(s, j + 1, Len(s)), args |-> <<>>]
                ELSE [path |-> <<>>, name |-> s, args |-> <<>>]

RECURSIVE Parse(_)     \* [ok |-> BOOLEAN, t |-> tree]
Parse(s) ==
    LET i == IndexOf(s, "[") IN
    IF i > 1
    THEN IF s[Len(s)] # "]" THEN [ok |-> FALSE, t |-> ParseHead(<<>>)]
         ELSE LET head  == ParseHead(SubSeq(s, 1, i - 1))
                  parts == SplitTop(SubSeq(s, i + 1, Len(s) - 1))
                  subs  == [k \in 1..Len(parts) |-> Parse(parts[k])]
              IN [ok |-> \A k \in 1..Len(parts) : subs[k].ok,
                  t  |-> [head EXCEPT !.args = [k \in 1..Len(parts) |-> subs[k].t]]]
    ELSE [ok |-> TRUE, t |-> ParseHead(s)]

(* Where the package path ends: the last '.' before the first '['. *)
SplitPoint(s) == LET i == IndexOf(s, "[")
                     base == IF i > 1 THEN SubSeq(s, 1, i - 1) ELSE s
                 IN LastIndexOf(base, ".")

RECURSIVE Paths(_)
Paths(r) == (IF r.path # <<>> THEN {r.path} ELSE {}) \cup UNION {Paths(r.args[k]) : k \in 1..Len(r.args)}

(* Rendering through the naming system into package `self`: every path is replaced by the local
   name bound to it (names: path -> name), the own package is dropped; nothing else changes. *)
RECURSIVE Rewrite(_, _, _)
Rewrite(r, self, names) ==
    [path |-> IF r.path = <<>> \/ r.path = self THEN <<>> ELSE names[r.path],
     name |-> r.name,
     args |-> [k \in 1..Len(r.args) |-> Rewrite(r.args[k], self, names)]]

--------------------------------------------------------------------------
(* Loop A *)
DesignRoundTrip == Parse(Show(t)).ok /\ Parse(Show(t)).t = t
DesignPrintParse == Show(Parse(Show(t)).t) = Show(t)
DesignSplit == SplitPoint(Show(t)) = (IF t.path = <<>> THEN 0 ELSE Len(t.path) + 1)

(* Loop B *)
EmitCase == PrintT(<<"CASE", ToJson([fam |-> "typeref", case |-> [tree |-> t, self |-> SelfPath]])>>)
==========================================================================
