CONSTANTS Kinds = {"scalar", "slice", "map", "pointer", "foreignStd", "foreignLocal", "error", "iface", "sub", "subB"}
 MaxFields = 0
 TagClasses <- MCTagClasses
 ErrorShapes = {"notStruct", "plainStruct", "originScalar"}
INIT JInit
NEXT JNext
INVARIANT Verdict
CHECK_DEADLOCK FALSE
