--------------------------- MODULE PipelineTrace ---------------------------
(* Loop C for C02 C04 C05 C07 C08: one trace line per step of a history (environment action or run) executed on a
   real module tree by the real gengo, every run in a fresh process. The judge is a fold over the lines that
   carries, per history, the quiet-run counter and a memo of package outputs. A run line is checked against the
   MACRO view of Pipeline.tla (which Loop A ties to the fine-grained actions): selection, cache guard, what a fully
   processed package must look like, what a failure may and may not touch. Logged hashes are bound, not recomputed. *)
EXTENDS PipelineBase, TLC, Json, IOUtils

Trace == ndJsonDeserialize(IOEnv.TRACE)

VARIABLES l, bad, quiet, memo

Conjuncts == {"C02_Outcome", "C02_SumUntouched", "C02_SumUntouchedDuringRun", "C02_CulpritUntouched", "C02_ErrorNames",
              "C04_CallOrder", "C04_SameInputSameOutput", "C06_CallSet",
              "C07_OnlyOwnOutputs", "C07_ExistsIffRendered", "C07_NotProcessedUntouched",
              "C08_SkipOnlyIfUnchanged", "C08_ChangedRegenerates", "C08_SumAfterSuccess", "C08_Converges",
              "X_NoPanic"}

BehOf(c, p, g) == IF \E i \in 1..Len(c.beh) : c.beh[i][1] = p /\ c.beh[i][2] = g
                  THEN c.beh[CHOOSE i \in 1..Len(c.beh) : c.beh[i][1] = p /\ c.beh[i][2] = g][3]
                  ELSE "render"

Exists(tp, p, g) == \E i \in 1..Len(tp.outs) : tp.outs[i].pkg = p /\ tp.outs[i].gen = g
DigestOf(tp, p, g) == IF Exists(tp, p, g)
                      THEN tp.outs[CHOOSE i \in 1..Len(tp.outs) : tp.outs[i].pkg = p /\ tp.outs[i].gen = g].digest
                      ELSE "absent"
PlantedOut(tp, p, g) == \E i \in 1..Len(tp.outs) : tp.outs[i].pkg = p /\ tp.outs[i].gen = g /\ tp.outs[i].planted
GensPresent(tp, p) == {tp.outs[i].gen : i \in {j \in 1..Len(tp.outs) : tp.outs[j].pkg = p}}

(* ------------------------------------------------------------ the macro view of one run *)
Sel(a) == IF a.all THEN FixClosure(ToSet(a.entry)) ELSE ToSet(a.entry)
LocalOf(a) == FixClosure(ToSet(a.entry))
(* a directory whose hash cannot be computed (h = "") is never "unchanged" *)
CachedOK(a, pre, p) == a.all /\ ~a.force /\ pre.sum_present /\ pre.pkgs[p].sum # "" /\ pre.pkgs[p].h # "" /\ pre.pkgs[p].sum = pre.pkgs[p].h
AllHashed(pre) == \A p \in FixPkgs : pre.pkgs[p].h # ""
ToDo(a, pre) == SelectSeq(FixOrder, LAMBDA p : p \in Sel(a) /\ ~CachedOK(a, pre, p))       \* packages to regenerate, in order
Skips(a, pre) == {p \in Sel(a) : CachedOK(a, pre, p)}

FaultHit(a, pre) == a.fault.kind # "none" /\ a.fault.pkg \in ToSet(ToDo(a, pre)) /\ a.fault.gen \in ToSet(a.gens)
IndexIn(s, x) == CHOOSE i \in 1..Len(s) : s[i] = x
(* packages processed completely / reached at all *)
Complete(a, pre) == IF FaultHit(a, pre) THEN ToSet(SubSeq(ToDo(a, pre), 1, IndexIn(ToDo(a, pre), a.fault.pkg) - 1)) ELSE ToSet(ToDo(a, pre))
Reached(a, pre)  == IF FaultHit(a, pre) THEN ToSet(SubSeq(ToDo(a, pre), 1, IndexIn(ToDo(a, pre), a.fault.pkg))) ELSE ToSet(ToDo(a, pre))
(* packages whose turn came (regenerated, skipped or struck by the fault) *)
TurnCame(a, pre) == IF FaultHit(a, pre)
                    THEN {p \in Sel(a) : IndexIn(FixOrder, p) <= IndexIn(FixOrder, a.fault.pkg)}
                    ELSE Sel(a)

(* expected GenerateType calls, in order: packages in path order, generators in the order given, types sorted; an
   error or death stops right there, an unparseable rendering lets the package's generators finish *)
(* the shadow fixture also declares package-level types t1, t2 (names that differ from T1, T2 only in case); sorted by bytes
   they come after T1, T2 *)
ExtraTypes(c) == IF c.variant = "shadow" THEN <<"t1", "t2">>
                 ELSE IF c.variant = "big" THEN [i \in 1..30 |-> IF i < 10 THEN "U0" \o ToString(i) ELSE "U" \o ToString(i)]      \* 30 more types
                 ELSE IF c.variant = "split" THEN [i \in 1..12 |-> IF i < 10 THEN "U0" \o ToString(i) ELSE "U" \o ToString(i)]    \* 12 more, one file each
                 ELSE <<>>

RECURSIVE TypeCalls(_, _, _, _)
TypeCalls(c, a, todo, i) ==
    IF i > Len(todo) THEN <<>>
    ELSE LET p == todo[i]
             extra(g) == [k \in 1..Len(ExtraTypes(c)) |-> <<p, g, ExtraTypes(c)[k]>>]
             RECURSIVE G(_)
             G(k) == IF k > Len(a.gens) THEN [calls |-> <<>>, stop |-> FALSE]
                     ELSE LET g == a.gens[k]
                              hit == a.fault.kind \in {"err", "die", "panic"} /\ a.fault.pkg = p /\ a.fault.gen = g
                          IN IF hit /\ a.fault.at = "T1" THEN [calls |-> << <<p, g, "T1">> >>, stop |-> TRUE]
                             ELSE IF hit /\ a.fault.at = "T2" THEN [calls |-> << <<p, g, "T1">>, <<p, g, "T2">> >>, stop |-> TRUE]
                             ELSE IF hit THEN [calls |-> << <<p, g, "T1">>, <<p, g, "T2">> >> \o extra(g), stop |-> TRUE]
                             ELSE LET rest == G(k + 1) IN [calls |-> << <<p, g, "T1">>, <<p, g, "T2">> >> \o extra(g) \o rest.calls, stop |-> rest.stop]
             r == G(1)
         IN IF r.stop \/ (a.fault.kind = "badsyntax" /\ a.fault.pkg = p /\ a.fault.gen \in ToSet(a.gens)) THEN r.calls
            ELSE r.calls \o TypeCalls(c, a, todo, i + 1)

ObservedTypeCalls(o) == LET idx == SelectSeq([i \in 1..Len(o.calls) |-> i], LAMBDA i : o.calls[i].kind = "type")
                        IN [k \in 1..Len(idx) |-> <<o.calls[idx[k]].pkg, o.calls[idx[k]].gen, o.calls[idx[k]].type>>]
Called(o) == {o.calls[i].pkg : i \in 1..Len(o.calls)}
PkgCalls(o, p) == LET idx == SelectSeq([i \in 1..Len(o.calls) |-> i], LAMBDA i : o.calls[i].kind = "type" /\ o.calls[i].pkg = p)
                  IN [k \in 1..Len(idx) |-> <<o.calls[idx[k]].gen, o.calls[idx[k]].type>>]

(* what a completely processed package must look like afterwards *)
PkgOK(c, a, pre, post, p) ==
    /\ \A g \in ToSet(a.gens) :
         LET b == BehOf(c, p, g) IN
         /\ Blank(b) \/ (Exists(post, p, g) <=> (Rendered(b) \/ (Ignored(b) /\ Exists(pre, p, g))))
         /\ (Ignored(b) /\ ~Rendered(b)) => DigestOf(post, p, g) = DigestOf(pre, p, g)
         (* only ErrIgnore keeps what was there: a file the environment had planted under the generator's name is rewritten or removed *)
         /\ ~Ignored(b) => ~PlantedOut(post, p, g)
    /\ \A g \in GensPresent(post, p) : g \in ToSet(a.gens)            \* stale <base>.*.go files are gone

SumAsExpected(a, pre, post) ==
    LET loc == SelectSeq(FixOrder, LAMBDA p : p \in LocalOf(a))
        want == [i \in 1..Len(loc) |-> <<loc[i], pre.pkgs[loc[i]].h>>]
    IN /\ post.sum_present /\ post.sum_wellformed
       /\ [i \in 1..Len(post.sum_lines) |-> <<post.sum_lines[i][1], post.sum_lines[i][2]>>] = want
       /\ [i \in 1..Len(post.sum_read) |-> <<post.sum_read[i][1], post.sum_read[i][2]>>] = want

MemoKey(c, a, pre, p) == <<p, pre.pkgs[p].in, a.gens, [i \in 1..Len(a.gens) |-> BehOf(c, p, a.gens[i])], c.newer, c.stateful>>
MemoApplies(c, a, p) == \A g \in ToSet(a.gens) : ~Ignored(BehOf(c, p, g))
QuietRun(c, a, pre, o) == a.all /\ ~a.force /\ a.fault.kind = "none" /\ ~o.failed /\ ~o.died /\ ToSet(a.entry) = FixPkgs /\ Len(a.gens) = 3 /\ AllHashed(pre)

Holds(cj, r, quietNow, memoNow) ==
    LET c == r.case  a == r.case.step  o == r.obs  pre == r.obs.pre  post == r.obs.post
        hit == FaultHit(a, pre)
    IN
    CASE cj = "X_NoPanic" -> (o.panic = "" \/ (hit /\ a.fault.kind = "panic")) /\ o.load_err = ""
      [] cj = "C02_Outcome" ->
            IF hit THEN /\ (a.fault.kind = "die" => (o.died /\ ~o.failed))
                        /\ (a.fault.kind = "panic" => (o.died \/ o.failed))          \* dying or reporting it: both are "not succeeding"
                        /\ (a.fault.kind \notin {"die", "panic"} => (o.failed /\ ~o.died))
            ELSE ~o.failed /\ ~o.died
      [] cj = "C02_SumUntouched" -> (o.failed \/ o.died) => post.sum_digest = pre.sum_digest
      [] cj = "C02_SumUntouchedDuringRun" -> \A i \in 1..Len(o.calls) : o.calls[i].sum_same
      [] cj = "C02_CulpritUntouched" -> (hit /\ (o.failed \/ o.died)) => DigestOf(post, a.fault.pkg, a.fault.gen) = DigestOf(pre, a.fault.pkg, a.fault.gen)
      [] cj = "C02_ErrorNames" -> (hit /\ o.failed) =>
            IF a.fault.kind = "err" THEN o.err_has_gen /\ o.err_has_pkg
            ELSE o.err_pos_in_culprit \/ (o.err_has_gen /\ o.err_has_pkg)
      (* C04 prescribes no order of the GenerateType calls, only that nothing depends on chance: a package that is processed
         completely is given its types in the same order as in every earlier run with the same inputs *)
      [] cj = "C04_CallOrder" ->
            \A p \in Complete(a, pre) : (MemoApplies(c, a, p) /\ ~o.failed /\ ~o.died /\ MemoKey(c, a, pre, p) \in DOMAIN memoNow) =>
                                          memoNow[MemoKey(c, a, pre, p)].calls = PkgCalls(o, p)
      (* fault-free runs call exactly the expected (package, generator, type) triples, each once (the fixture enables everything) *)
      [] cj = "C06_CallSet" -> (a.fault.kind = "none" /\ ~o.failed /\ ~o.died) =>
                                LET obs == ObservedTypeCalls(o)  want == TypeCalls(c, a, ToDo(a, pre), 1)
                                IN ToSet(obs) = ToSet(want) /\ Len(obs) = Len(want)
      [] cj = "C04_SameInputSameOutput" ->
            \A p \in Complete(a, pre) : (MemoApplies(c, a, p) /\ MemoKey(c, a, pre, p) \in DOMAIN memoNow) =>
                                          memoNow[MemoKey(c, a, pre, p)].out = post.pkgs[p].out
      [] cj = "C07_OnlyOwnOutputs" ->
            \A i \in 1..Len(o.changes) :
               LET ch == o.changes[i] IN
               \/ (ch.is_sum /\ a.all /\ ~o.failed /\ ~o.died)
               \/ (ch.base_dot /\ ch.pkg \in Reached(a, pre) /\ ch.pkg \in Called(o))
      [] cj = "C07_ExistsIffRendered" -> \A p \in Complete(a, pre) : PkgOK(c, a, pre, post, p)
      [] cj = "C07_NotProcessedUntouched" -> \A p \in FixPkgs \ Reached(a, pre) : post.pkgs[p].out = pre.pkgs[p].out /\ post.pkgs[p].in = pre.pkgs[p].in
      [] cj = "C08_SkipOnlyIfUnchanged" -> \A p \in TurnCame(a, pre) : p \notin Called(o) => CachedOK(a, pre, p)
      [] cj = "C08_ChangedRegenerates" -> \A p \in TurnCame(a, pre) : ~CachedOK(a, pre, p) => p \in Called(o)
      (* what the line of a package without a hash looks like is not specified *)
      [] cj = "C08_SumAfterSuccess" -> (a.all /\ ~o.failed /\ ~o.died /\ AllHashed(pre)) => SumAsExpected(a, pre, post)
      [] cj = "C08_Converges" -> (QuietRun(c, a, pre, o) /\ quietNow + 1 >= ConvergeBoundOf(c.layout)) => (o.calls = <<>> /\ o.changes = <<>>)

IsRun(r) == r.case.step.op = "run"

NewMemo(r, m) ==
    LET c == r.case  a == r.case.step  pre == r.obs.pre  post == r.obs.post
        ks == {p \in Complete(a, pre) : MemoApplies(c, a, p) /\ ~r.obs.failed /\ ~r.obs.died /\ MemoKey(c, a, pre, p) \notin DOMAIN m}
    IN m @@ [k \in {MemoKey(c, a, pre, p) : p \in ks} |-> [out |-> post.pkgs[k[1]].out, calls |-> PkgCalls(r.obs, k[1])]]

JInit == l = 1 /\ bad = {} /\ quiet = 0 /\ memo = <<>>
JNext == /\ l <= Len(Trace)
         /\ l' = l + 1
         /\ LET r == Trace[l]
                q0 == IF r.case.reset THEN 0 ELSE quiet
                m0 == IF r.case.reset THEN <<>> ELSE memo
                f == IF IsRun(r) THEN {cj \in Conjuncts : ~Holds(cj, r, q0, m0)} ELSE {}
            IN /\ bad' = IF f = {} THEN bad ELSE bad \cup {[id |-> r.id, failed |-> f]}
               /\ quiet' = IF IsRun(r) /\ QuietRun(r.case, r.case.step, r.obs.pre, r.obs) THEN q0 + 1 ELSE 0
               /\ memo' = IF IsRun(r) THEN NewMemo(r, m0) ELSE m0

Verdict == l = Len(Trace) + 1 =>
             PrintT(<<"VERDICT", ToJson([consumed |-> l - 1, bad |-> bad, stats |-> [x |-> 0]])>>)
=============================================================================
