CONSTANTS MaxLen = 4
 Alphabet = {97, 98, 55, 95, 64, 39, 37, 10, 32, 45, 233, 19990}
INIT GenInitT
NEXT GenNextT
INVARIANT EmitCase
CHECK_DEADLOCK FALSE
