--------------------------- MODULE ValueLitTrace ---------------------------
EXTENDS ValueLit, IOUtils
Trace == ndJsonDeserialize(IOEnv.TRACE)
VARIABLES l, bad

Conjuncts == {"C10_NoPanic", "C10_Compiles", "C10_HasType", "C10_EvaluatesEqual", "C10_Deterministic"}

Holds(c, r) ==
    LET o == r.obs IN
    CASE c = "C10_NoPanic"        -> ~o.panicked
      [] c = "C10_Compiles"       -> o.panicked \/ o.check_errors = <<>>
      [] c = "C10_HasType"        -> o.panicked \/ o.check_errors # <<>> \/ o.type_ok
      [] c = "C10_EvaluatesEqual" -> o.panicked \/ o.check_errors # <<>> \/ ~o.ran \/ o.canon_got = o.canon_want
      [] c = "C10_Deterministic"  -> o.panicked \/ o.same_text_twice

Failed(r) == {c \in Conjuncts : ~Holds(c, r)}

JInit == l = 1 /\ bad = {} /\ shape = "leaf" /\ leaf = [t |-> "int", c |-> "zero"]
JNext == /\ l <= Len(Trace)
         /\ l' = l + 1
         /\ LET r == Trace[l]
                f == Failed(r)
            IN bad' = IF f = {} THEN bad ELSE bad \cup {[id |-> r.id, failed |-> f]}
         /\ UNCHANGED <<shape, leaf>>

Verdict == l = Len(Trace) + 1 =>
             PrintT(<<"VERDICT", ToJson([consumed |-> l - 1, bad |-> bad, stats |-> [x |-> 0]])>>)
=============================================================================
