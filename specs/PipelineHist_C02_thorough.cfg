CONSTANTS Menu = "C02"
 MaxTail = 1
 Layouts = {"siblings", "nested", "root"}
 AllPlants = FALSE
 Lite = FALSE
 Flavours <- Flav_twoA
INIT HInit
NEXT HNext
INVARIANT EmitCase
CHECK_DEADLOCK FALSE
