CONSTANTS FieldKinds = {"scalar", "str", "sliceInt", "mapStr", "structVal", "structDeep", "definedScalar", "definedMap","definedMapM", "errorField", "ifaceField", "typeParam", "genericInst", "sliceStr", "mapOfDefined", "untaggedDep", "genericNamedArg", "definedMapLate", "structWide", "structMixed", "structTwice", "identClash", "caseTwins", "structDefinedMap", "embedShadow", "manyHelpers"}
 MaxFields = 0
 Variants = {"plain", "generic", "interfaces", "typeTagged"}
 DeepNested = TRUE
INIT AInitA
NEXT ANextA
INVARIANT C17_OriginalUnchanged
CHECK_DEADLOCK FALSE
