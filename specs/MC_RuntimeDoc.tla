--------------------------- MODULE MC_RuntimeDoc ---------------------------
EXTENDS RuntimeDoc
Classes == {"plain", "quotes", "backslash", "backquote", "percent", "atname", "unicode", "namefirst", "namedouble", "tagplus", "tagat",
            "colon", "goword"}       \* ordinary text shaped like a directive: "host:port ...", "go: ..." (a real directive has no space after //)
MCDocPatterns == {<<>>} \cup {<<a>> : a \in Classes} \cup {<<a, b>> : a \in Classes, b \in Classes}
                 \cup {<<"plain", "blank", "unicode">>, <<"namefirst", "blank", "quotes">>, <<"plain", "blank", "tagplus">>, <<"tagat", "plain", "blank", "backslash">>}
MCDocPatternsSmall == {<<>>} \cup {<<a>> : a \in Classes} \cup {<<"plain", "blank", "unicode">>, <<"tagplus", "namefirst">>, <<"quotes", "tagat", "percent">>, <<"plain", "colon", "goword">>}
MCFieldDocPatterns == {<<>>, <<"plain">>, <<"quotes", "backquote">>, <<"tagplus", "percent">>, <<"plain", "blank", "atname">>, <<"backslash">>, <<"unicode", "tagat">>, <<"colon">>, <<"plain", "goword">>}
MCKinds == {"struct", "genericStruct", "scalar", "map", "slice", "func", "interface", "unexportedScalar",
            "fromStd"}          \* a struct type defined from a struct of the standard library (type T os.ProcAttr): the field docs are the library's
MCFieldPatterns == {"one", "withUnexported", "anonStruct", "emptyNamed", "embedValue", "embedPointer", "embedDocumented", "noExported", "namedCovered", "two",
                    "namedIface", "namedGenericInst", "namedScalar",
                    "embedScalar"}      \* fields of a same-package interface / generic instantiation / named scalar; embedScalar: an embedded named scalar, in a package no struct of which embeds a struct
=============================================================================
