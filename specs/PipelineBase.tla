---------------------------- MODULE PipelineBase ----------------------------
(* Definitions shared by the fine-grained model (Pipeline.tla), the history generator and the trace judge:
   the fixture module of the conformance harness (packages p, q, r; r imports p) in its three layouts. *)
EXTENDS Naturals, Sequences, FiniteSets

Rendered(b) == b \in {"render", "ignore_render", "mixed", "defer_only"}      \* the generator renders something for the package (defer_only: from its deferred callback alone)
Blank(b)    == b = "blank"                                    \* ... renders white space only: whether that is "something" is left open
Ignored(b)  == b \in {"ignore", "ignore_render", "ignore_alias"}   \* ... signals ErrIgnore for one of its types (ignore_alias: for an alias, from GenerateAliasType)

FixPkgs == {"p", "q", "r"}
FixOrder == <<"p", "q", "r">>                                  \* sorted by import path, in every layout
FixDep == [x \in FixPkgs |-> IF x = "r" THEN {"p"} ELSE {}]

(* the fixture's import graph has depth 1 (r -> p): two steps reach the fixed point; written without recursion so that the
   module can be read by the proof system as well *)
FixStep(S) == S \cup UNION {FixDep[x] : x \in S}
FixClosure(S) == FixStep(FixStep(S))

(* directories below a package's directory *)
UnderOf(layout) == [x \in FixPkgs |->
                      IF x # "p" THEN {}
                      ELSE IF layout = "nested" THEN {"q"} ELSE IF layout = "root" THEN {"q", "r"} ELSE {}]

(* a run on unchanged inputs regenerates nothing from the ConvergeBoundOf(layout)-th consecutive quiet run on:
   2 + the nesting depth of package directories, plus the run that finally does nothing *)
ConvergeBoundOf(layout) == IF layout = "siblings" THEN 3 ELSE 4

ToSet(s) == {s[i] : i \in 1..Len(s)}
=============================================================================
