--------------------------- MODULE DeepCopyTrace ---------------------------
EXTENDS DeepCopy, IOUtils
Trace == ndJsonDeserialize(IOEnv.TRACE)
VARIABLES l, bad

Conjuncts == {"C17_Generates", "C17_Compiles", "C17_SameOnLaterRuns", "C17_NilCopiesToNil", "C17_CopyEqual", "C17_NoSharedContainers", "C17_MutationInvisible", "C17_ProbeRan"}

Holds(c, r) ==
    LET o == r.obs
        live == o.gen_err = "" /\ o.compile_errors = <<>> /\ o.ran
    IN CASE c = "C17_Generates"          -> o.gen_err = ""
         [] c = "C17_Compiles"           -> o.gen_err # "" \/ o.compile_errors = <<>>
         [] c = "C17_SameOnLaterRuns"    -> o.gen_err # "" \/ (o.second_run_err = "" /\ o.stable)
         [] c = "C17_ProbeRan"           -> ~(o.gen_err = "" /\ o.compile_errors = <<>>) \/ (o.ran /\ o.probe_panic = "")
         [] c = "C17_NilCopiesToNil"     -> ~live \/ o.nil_to_nil
         [] c = "C17_CopyEqual"          -> ~live \/ o.equal
         [] c = "C17_NoSharedContainers" -> ~live \/ o.aliased = <<>>
         [] c = "C17_MutationInvisible"  -> ~live \/ o.leaked = <<>>

Failed(r) == {c \in Conjuncts : ~Holds(c, r)}

JInit == l = 1 /\ bad = {} /\ shape = <<>> /\ mutated = {} /\ chosen = {} /\ variant = "-"
JNext == /\ l <= Len(Trace)
         /\ l' = l + 1
         /\ LET r == Trace[l]
                f == Failed(r)
            IN bad' = IF f = {} THEN bad ELSE bad \cup {[id |-> r.id, failed |-> f]}
         /\ UNCHANGED <<shape, mutated, chosen, variant>>

Verdict == l = Len(Trace) + 1 =>
             PrintT(<<"VERDICT", ToJson([consumed |-> l - 1, bad |-> bad, stats |-> [x |-> 0]])>>)
=============================================================================
