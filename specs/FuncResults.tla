----------------------------- MODULE FuncResults -----------------------------
(* pkg/types/function_result_resolver.go: Package.ResultsOf  -- property C14.

   Loop A: the analysis is a depth-first search over (function, result index) pairs that follows calls whose result
           is forwarded; a `visited` mark per pair cuts recursion. TLC checks, for every call graph over the model's
           functions (self and mutual recursion included), that the search terminates: the stack never grows beyond
           the number of pairs. With MarkEveryIndex = FALSE (only the first index asked for gets its mark - the code
           before the fix) TLC shows the unbounded descent.
   Loop B: every assignment of source shapes to three functions f1 -> f2 -> f3 -> f1 is one generated Go package;
           for literal-only shapes the specification states the exact alternatives (values in source order).
   The real corpus (every function and method of the dependency closure of gengo's own module) is replayed too. *)
EXTENDS Naturals, Sequences, FiniteSets, TLC, Json

CONSTANTS Funcs, NRes, Calls, MarkEveryIndex,     \* Loop A: Calls : <<f, i>> -> set of <<g, j>> whose results flow into result i of f
          Shapes                                    \* Loop B

(* ---------------------------------------------------------------- Loop A: DFS with visited marks *)
VARIABLES stack, visited, asked

Pairs == {<<f, i>> : f \in Funcs, i \in 1..NRes}

AInit == \E root \in Pairs : stack = <<[pair |-> root, todo |-> Calls[root]]>> /\ visited = {root} /\ asked = {root[1]}

Top == stack[Len(stack)]
Marked(pr) == IF MarkEveryIndex THEN pr \in visited
              ELSE (* the flawed marking: a function's mark array is created - and one slot set - only the first time the function is asked *)
                   pr \in visited
Visit == /\ stack # <<>> /\ Top.todo # {}
         /\ \E pr \in Top.todo :
              LET st2 == [stack EXCEPT ![Len(stack)].todo = @ \ {pr}] IN
              IF Marked(pr) THEN stack' = st2 /\ UNCHANGED <<visited, asked>>
              ELSE /\ stack' = Append(st2, [pair |-> pr, todo |-> Calls[pr]])
                   /\ visited' = IF MarkEveryIndex \/ pr[1] \notin asked THEN visited \cup {pr} ELSE visited
                   /\ asked' = asked \cup {pr[1]}
Return == /\ stack # <<>> /\ Top.todo = {}
          /\ stack' = SubSeq(stack, 1, Len(stack) - 1) /\ UNCHANGED <<visited, asked>>
ANext == Visit \/ Return

C14_Terminates == Len(stack) <= Cardinality(Pairs)      \* the search can never be deeper than the number of pairs

(* ---------------------------------------------------------------- Loop B: shapes *)
(* literal-only shapes and the alternatives the statement prescribes for them, per result position, in source order *)
LiteralOnly == [lit1    |-> << <<"1">> >>,
                lit2    |-> << <<"1", "2">> >>,
                litops  |-> << <<"3", "\"ab\"", "-8">> >>,   \* return 1 + 2 ... (declared as any) ; return "a" + "b" ; return -(9 / 2) * 2 (integer division)
                litbool |-> << <<"true", "false">> >>,
                litpair |-> << <<"1", "2">>, <<"nil", "nil">> >>,
                litoctal |-> << <<"420", "493">> >>]       \* return 0644 ... return 0755 (legacy octal spellings)
(* function-local constants: the k-th function of a package returns size * 2 with its own  const size = 8 * k  /  "s<k>" *)
LocalConst(shape, k) == IF shape = "localconst" THEN << <<ToString(16 * k)>> >>
                        ELSE << <<"\"s" \o ToString(k) \o "s" \o ToString(k) \o "\"">> >>

VARIABLES s1, s2, s3
GenInit == s1 \in Shapes /\ s2 \in Shapes /\ s3 \in Shapes /\ stack = <<>> /\ visited = {} /\ asked = {}
GenNone == FALSE /\ UNCHANGED <<s1, s2, s3, stack, visited, asked>>
EmitCase == PrintT(<<"CASE", ToJson([fam |-> "results", case |-> [kind |-> "synthetic", shapes |-> <<s1, s2, s3>>]])>>)

AInitA == AInit /\ s1 = "-" /\ s2 = "-" /\ s3 = "-"
ANextA == ANext /\ UNCHANGED <<s1, s2, s3>>
=============================================================================
