CONSTANTS MaxLen = 5
 Alphabet = {97, 37, 118, 84, 120, 32, 64}
INIT GenInitS
NEXT GenNextS
INVARIANT EmitCase
CHECK_DEADLOCK FALSE
