------------------------------ MODULE Registry ------------------------------
(* pkg/gengo/register.go: the process-wide generator registry (Register, GetRegisteredGenerators).
   NOT one of the listed properties: part of the specification's growth over the rest of the system (bin/extras).

   State: reg - a partial function from generator names to the generator last registered under that name.
   Register(g)        : reg' = reg with g.Name() bound to g (a later registration replaces an earlier one)
   Get(<<n1..nk>>)    : the registered generators among n1..nk, in the order asked (a name asked twice is answered twice,
                        an unknown name is skipped)
   GetAll             : every registered generator exactly once, in no particular order (a Go map is iterated)
   A history is a sequence of operations; the generation machine enumerates all histories in bound (Loop B), the real
   registry executes them and RegistryTrace judges every answer by replaying the history on this model (Loop C).
   Loop A: answers never invent a generator, and GetAll / Get agree.                                                  *)
EXTENDS Naturals, Sequences, FiniteSets, TLC, Json

CONSTANTS Names, Ids, MaxOps, Queries      \* Queries: set of name sequences asked by Get

Reg(name, id) == [op |-> "register", name |-> name, id |-> id, names |-> <<>>]
Get(ns)       == [op |-> "get", name |-> "", id |-> 0, names |-> ns]
GetAll        == [op |-> "getall", name |-> "", id |-> 0, names |-> <<>>]
Ops == {Reg(n, i) : n \in Names, i \in Ids} \cup {Get(q) : q \in Queries} \cup {GetAll}

(* the registry after a prefix of a history *)
RECURSIVE After(_, _)
After(h, k) == IF k = 0 THEN <<>>
               ELSE LET r == After(h, k - 1)  o == h[k] IN
                    IF o.op = "register" THEN [n \in DOMAIN r \cup {o.name} |-> IF n = o.name THEN o.id ELSE r[n]] ELSE r

AnswerGet(r, ns) == LET idx == SelectSeq([i \in 1..Len(ns) |-> i], LAMBDA i : ns[i] \in DOMAIN r) IN [k \in 1..Len(idx) |-> r[ns[idx[k]]]]
AnswerAll(r) == {<<n, r[n]>> : n \in DOMAIN r}      \* as a set of <<name, id>>: order is not specified

VARIABLE hist
GenInit == hist = <<>>
GenNext == Len(hist) < MaxOps /\ \E o \in Ops : hist' = Append(hist, o)

(* Loop A *)
DesignNoInvention == LET r == After(hist, Len(hist)) IN
                     \A q \in Queries : \A i \in 1..Len(AnswerGet(r, q)) : \E n \in DOMAIN r : r[n] = AnswerGet(r, q)[i]
DesignLastWins == \A k \in 1..Len(hist) :
                     (hist[k].op = "register" /\ \A j \in (k + 1)..Len(hist) : ~(hist[j].op = "register" /\ hist[j].name = hist[k].name))
                        => After(hist, Len(hist))[hist[k].name] = hist[k].id

EmitCase == (hist # <<>> /\ hist[Len(hist)].op # "register") =>
              PrintT(<<"CASE", ToJson([fam |-> "registry", case |-> [hist |-> hist]])>>)
=============================================================================
