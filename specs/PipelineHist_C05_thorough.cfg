CONSTANTS Menu = "C05"
 MaxTail = 2
 Layouts = {"siblings", "nested", "root"}
 AllPlants = FALSE
 Lite = FALSE
 Flavours <- Flav_all4
INIT HInit
NEXT HNext
INVARIANT EmitCase
CHECK_DEADLOCK FALSE
