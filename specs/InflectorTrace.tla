--------------------------- MODULE InflectorTrace ---------------------------
(* Loop C for C20.
   kind "seq":  one sequential case: totality, purity, prefix law.
   kind "conc": one round of concurrent callers on a cold cache, events ordered by a process-wide
                atomic sequence number: {"ev":"call"|"ret","g","k","v"}. The internal steps of
                InflectorCache.tla (LoadOrStore, Enter, Compute, Wake) are not logged (lock-free state: only
                call start / end are observable); what that protocol guarantees at the interface is checked on
                the events: every call returns, the memo value of a key is bound by its first return and every
                later return of that key must equal it, and it equals the sequential reference (a cold process). *)
EXTENDS Inflector, IOUtils

Trace == ndJsonDeserialize(IOEnv.TRACE)

VARIABLES l, bad

Conjuncts == {"C20_NoPanic", "C20_Pure", "C20_HistoryFree", "C20_PrefixLaw", "C20_ConcSameAsSeq", "C20_ConcNoRace", "C20_ConcComplete"}

RECURSIVE ConcOK(_, _, _, _)     \* events, index, pending: set of <<g,k>>, memo: function k -> value (as a set of pairs)
ConcOK(ev, i, pending, memo) ==
    IF i > Len(ev) THEN pending = {}
    ELSE LET e == ev[i] IN
         IF e.ev = "call" THEN <<e.g, e.k>> \notin pending /\ ConcOK(ev, i + 1, pending \cup {<<e.g, e.k>>}, memo)
         ELSE /\ <<e.g, e.k>> \in pending
              /\ \A m \in memo : m[1] = e.k => m[2] = e.v
              /\ ConcOK(ev, i + 1, pending \ {<<e.g, e.k>>}, memo \cup {<<e.k, e.v>>})

Holds(c, r) ==
    LET o == r.obs IN
    IF r.case.kind = "conc"
    THEN CASE c = "C20_ConcNoRace"    -> ~o.race /\ ~o.crashed
           [] c = "C20_ConcComplete"  -> o.race \/ o.crashed \/ ConcOK(o.events, 1, {}, {})
           [] c = "C20_ConcSameAsSeq" -> o.race \/ o.crashed \/
                                         \A i \in 1..Len(o.events) : o.events[i].ev = "ret" =>
                                            \E j \in 1..Len(o.reference) : o.reference[j][1] = o.events[i].k /\ o.reference[j][2] = o.events[i].v
           [] OTHER -> TRUE
    ELSE CASE c = "C20_NoPanic"   -> ~o.panicked
           [] c = "C20_Pure"      -> o.panicked \/ o.again
           (* pure = a function of the input alone: a string that has been an ANSWER of this process is inflected like the same word
              in a string the process has never seen *)
           [] c = "C20_HistoryFree" -> o.panicked \/ ~o.hist_judged \/ o.hist_out = o.fresh_out
           [] c = "C20_PrefixLaw" -> o.panicked \/ ~r.conc.law \/ PrefixLaw(r.conc.lead, o.alone_out, o.out)
           [] OTHER -> TRUE

Failed(r) == {c \in Conjuncts : ~Holds(c, r)}

JInit == l = 1 /\ bad = {} /\ cs = [dir |-> "plural"]
JNext == /\ l <= Len(Trace)
         /\ l' = l + 1
         /\ LET r == Trace[l]
                f == Failed(r)
            IN bad' = IF f = {} THEN bad ELSE bad \cup {[id |-> r.id, failed |-> f]}
         /\ UNCHANGED cs

Verdict == l = Len(Trace) + 1 =>
             PrintT(<<"VERDICT", ToJson([consumed |-> l - 1, bad |-> bad, stats |-> [x |-> 0]])>>)
=============================================================================
