CONSTANTS Pkgs <- P2
 Order <- O2
 Gens <- GensAB
 Dep <- NoDep2
 Closure <- MCClosure
 Under <- UnderRoot2
 RootPkg = "p"
 HashCoversSum = FALSE
 SkipUnknown = FALSE
 SaveAlways = TRUE
 KeepAfterDefers = TRUE
 BehChoices <- Beh2Small
 ArgsMenu <- Args2Quiet
 MaxRuns = 5
 MaxEnv = 1
 MaxSrc = 1
 ConvergeBound = 4
SPECIFICATION Spec
INVARIANT C07_InputsUntouched C07_NonSelectedUntouched C07_ExistsIffRendered C04_OutputIsFunctionOfInput
 C02_SumUntouchedOnFailure C02_CulpritFileUntouched C02_SumUntouchedWhileRunning FineRefinesMacro C08_SumAfterSuccess C08_Converges
PROPERTY C07_OnlyCurrentPkg C07_SumOnlyAtSave C08_SkipOnlyIfUnchanged
CHECK_DEADLOCK FALSE
