CONSTANTS Depth = 3
 Width = 2
 LeafIds = {"int", "abcD", "self"}
INIT GenInit
NEXT GenNext
INVARIANT DesignRoundTrip DesignPrintParse DesignSplit
CHECK_DEADLOCK FALSE
