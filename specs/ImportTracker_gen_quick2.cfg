CONSTANTS Paths = {"sha", "s.ha", "x/sha", "crypto/sha1", "md", "m-d", "crypto/md5", "encoding/asn1", "asn", "y/md1"}
 Self = "self.io/me"
 MaxSteps = 3
 LastKinds = {"ref"}
 AbsPaths <- MCAbsPaths
 Cand <- MCCand
 UseFallback = TRUE
INIT GenInit
NEXT GenNext
INVARIANT EmitCase
CHECK_DEADLOCK FALSE
