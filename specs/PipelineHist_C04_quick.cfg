CONSTANTS Menu = "C04"
 MaxTail = 1
 Layouts = {"siblings", "nested", "root"}
 AllPlants = FALSE
 Lite = TRUE
 Flavours <- Flav_shadowQ
INIT HInit
NEXT HNext
INVARIANT EmitCase
CHECK_DEADLOCK FALSE
