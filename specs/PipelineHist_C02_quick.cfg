CONSTANTS Menu = "C02"
 MaxTail = 1
 Layouts = {"siblings", "nested", "root"}
 AllPlants = FALSE
 Lite = TRUE
 Flavours <- Flav_alias
INIT HInit
NEXT HNext
INVARIANT EmitCase
CHECK_DEADLOCK FALSE
