CONSTANTS Funcs <- MCFuncs
 NRes = 2
 Calls <- MCCalls
 MarkEveryIndex = TRUE
 Shapes <- MCShapes
INIT JInit
NEXT JNext
INVARIANT Verdict
CHECK_DEADLOCK FALSE
