INIT GenInit
NEXT GenNone
INVARIANT EmitCase
CHECK_DEADLOCK FALSE
