---------------------------- MODULE MC_SumFile ----------------------------
EXTENDS SumFile
MCPathSeq == <<"example.com/m", "example.com/m/p", "example.com/m/p/q", "example.com/m/r">>
MCHashes == {"h1:AAAA=", "h1:BBBB+/="}
MCRawLines == { <<"example.com/m/p", "h1:AAAA=">>, <<"example.com/m/p", "h1:BBBB+/=">>, <<"example.com/m/r", "h1:AAAA=", "extra">>, <<"garbage">>, <<>>,
                <<"example.com/m", "h1:BBBB+/=">> }
=============================================================================
