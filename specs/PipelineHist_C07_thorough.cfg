CONSTANTS Menu = "C07"
 MaxTail = 1
 Layouts = {"siblings", "nested", "root"}
 AllPlants = TRUE
 Lite = FALSE
 Flavours <- Flav_alias
INIT HInit
NEXT HNext
INVARIANT EmitCase
CHECK_DEADLOCK FALSE
