--------------------------- MODULE CaseConvTrace ---------------------------
(* Loop C for the converter model of CamelCase.tla (bin/extras, family caseconv; not one of the listed properties):
   every recorded answer of the six converters must be the composition the model defines, from the words Split returned
   and the per-word facts logged by the harness. *)
EXTENDS CamelCase, IOUtils

Trace == ndJsonDeserialize(IOEnv.TRACE)
VARIABLES l, bad

Conjuncts == {"X_Conv1", "X_Conv2", "X_Conv3", "X_Conv4", "X_Conv5", "X_Conv6", "X_FormsPerWord"}

Applies(r) == ~r.obs.panicked /\ ~r.obs.conv_panicked /\ Len(r.obs.conv_out) = 6
ConvHolds(k, r) == ~Applies(r) \/ r.obs.conv_out[k] = ConvExpected(Convs[k], r.obs.words, r.obs.forms)

Holds(c, r) ==
    CASE c = "X_Conv1" -> ConvHolds(1, r)
      [] c = "X_Conv2" -> ConvHolds(2, r)
      [] c = "X_Conv3" -> ConvHolds(3, r)
      [] c = "X_Conv4" -> ConvHolds(4, r)
      [] c = "X_Conv5" -> ConvHolds(5, r)
      [] c = "X_Conv6" -> ConvHolds(6, r)
      [] c = "X_FormsPerWord" -> r.obs.panicked \/ Len(r.obs.forms) = Len(r.obs.words)

Failed(r) == {c \in Conjuncts : ~Holds(c, r)}

JInit == l = 1 /\ bad = {} /\ cls = <<>>
JNext == /\ l <= Len(Trace)
         /\ l' = l + 1
         /\ LET r == Trace[l]
                f == Failed(r)
            IN bad' = IF f = {} THEN bad ELSE bad \cup {[id |-> r.id, failed |-> f]}
         /\ UNCHANGED cls

Verdict == l = Len(Trace) + 1 =>
             PrintT(<<"VERDICT", ToJson([consumed |-> l - 1, bad |-> bad, stats |-> [x |-> 0]])>>)
=============================================================================
