------------------------------ MODULE ValueLit ------------------------------
(* pkg/gengo/internal/dumper.go ValueLit, snippet.Value / %v  -- property C10.

   A value is (shape, leaf): a container shape with one slot filled by a leaf value [t |-> type, c |-> class]; leaf
   classes name the edge values of each type. The law (judged on what the Go type checker, the compiler and the
   compiled program report, all logged):
        the rendered expression compiles in a file with the imports it registered, has the value's type (or is an
        untyped constant representable in it), evaluates to a deeply equal value (nil = empty for slices and maps;
        omitted zero fields are zero), and rendering twice gives the same text.                                     *)
EXTENDS Naturals, Sequences, FiniteSets, TLC, Json

CONSTANTS Shapes

ClassesOf(t) ==
    CASE t = "bool"    -> {"true", "false"}
      [] t \in {"int", "int64", "int8"} -> {"zero", "one", "neg", "min", "max"}
      [] t \in {"uint8", "uint64"} -> {"zero", "one", "max"}
      [] t = "rune"    -> {"zero", "printable", "quote", "nonprintable", "maxrune", "neg"}
      [] t = "float64" -> {"zero", "negzero", "subnormal", "max", "tenth", "big", "negtenth"}
      [] t = "float32" -> {"zero", "negzero", "subnormal", "max", "tenth", "third"}
      [] t = "string"  -> {"empty", "quotes", "newline", "backquote", "nonutf8", "unicode", "long"}
      [] t = "AI"      -> {"zero", "one", "max"}
      [] t = "AS"      -> {"empty", "quotes"}
      [] t = "AB"      -> {"true", "false"}
      [] t = "AF"      -> {"tenth", "zero"}
      [] t = "A"       -> {"zero", "set"}
      [] t = "B"       -> {"zero", "set"}
LeafTypes == {"bool", "int", "int64", "int8", "uint8", "uint64", "rune", "float64", "float32", "string", "AI", "AS", "AB", "AF", "A", "B"}
Scalars == LeafTypes \ {"A", "B"}

(* a struct of one package whose fields have struct / container / named types of another package: zero, set, empty *)
CrossShapes == {"mapTwoPkgs", "crossName", "crossB", "crossPBZero", "crossSBZero", "crossABZero", "crossAB", "crossMBZero", "crossBS", "crossEmpty"}

(* which leaf types a shape's slot accepts *)
Accepts(s) ==
    CASE s \in {"leaf", "slice2", "array2", "mapS", "ptrSlice", "ptrMap", "emptySlice", "nilSlice", "emptyMap", "nilMap", "sliceOfSlice", "mapOfSlice"} -> LeafTypes
      [] s \in {"ptr", "sliceOfPtr", "mapOfPtr"} -> Scalars            \* single-level pointers to scalars and named scalars
      [] s = "ptrStruct"  -> {"A", "B"}                                 \* ... and to (possibly zero-valued) structs
      [] s = "mapKey"     -> {"int", "int64", "uint64", "int8", "AI", "bool", "string", "AS", "float64", "rune", "uint8"}      \* the leaf is the map KEY (integer keys: with both neighbours)
      [] s = "genericV"   -> {"int", "string", "A"}
      [] s \in {"outerPS"} -> {"string"}
      [] s \in {"outerPI", "outerInX", "outerPInX", "structAN"} -> {"int"}
      [] s = "outerPAI"   -> {"AI"}
      [] s = "outerF32"   -> {"float32"}
      [] s = "outerR"     -> {"rune"}
      [] s = "outerNamed" -> {"AS"}
      [] s = "outerU8"    -> {"uint8"}
      [] s = "outerI64"   -> {"int64"}
      [] s \in {"outerZero", "outerPInZero", "outerMSZero", "outerSAZero", "outerAll"} \cup CrossShapes \cup {"chainDeep"} -> {"bool"}   \* no real slot (chainDeep: a list of 40 nodes linked by pointers)

VARIABLES shape, leaf
GenInit == /\ shape \in Shapes
           /\ \E t \in Accepts(shape) : \E c \in ClassesOf(t) : leaf = [t |-> t, c |-> c]
           /\ (shape \in {"outerZero", "outerPInZero", "outerMSZero", "outerSAZero", "outerAll"} \cup CrossShapes \cup {"chainDeep"} => leaf.c = "true")
GenNone == FALSE /\ UNCHANGED <<shape, leaf>>

EmitCase == PrintT(<<"CASE", ToJson([fam |-> "valuelit", case |-> [shape |-> shape, leaf |-> leaf]])>>)
=============================================================================
