---------------------------- MODULE MC_Universe ----------------------------
EXTENDS Universe
O(i, n, k, s) == [id |-> i, name |-> n, kind |-> k, scope |-> s]
MCObjs == { O(1, "A", "type", "pkg"), O(2, "A", "type", "local"), O(3, "A", "type", "typeparam"), O(4, "L", "type", "local"),
            O(5, "C", "const", "pkg"), O(6, "C", "const", "local"), O(7, "F", "func", "pkg"), O(8, "V", "var", "pkg"), O(9, "M", "method", "pkg") }
MCDagPkgs == {"a", "b", "c", "d"}
MCDagImports == [p \in MCDagPkgs |-> CASE p = "a" -> {"b", "c"} [] p = "b" -> {"c", "d"} [] p = "c" -> {"d"} [] p = "d" -> {}]
MCFeatures == {"pkg_type", "generic_type", "local_shadow_type", "local_only_type", "typeparam_shadow", "typeparam_generic_shadow", "local_const_shadow",
               "pkg_const", "pkg_func", "local_funcvar", "method_value", "method_pointer", "generic_method_value", "generic_method_pointer",
               "grouped_types", "pkg_alias", "imports_chain", "init_func", "blank_func", "interface_type", "grouped_consts", "local_alias_shadow",
               "imports_replaced", "local_shadow_generic", "method_alias_value", "method_alias_pointer"}
=============================================================================
