CONSTANTS Depth = 2
 Leaves = {"int", "string", "error", "any", "fixt.A", "fixt.AI", "fixt2.B", "fixt2.BS", "clash.C", "fixt.Gen[int]", "fixt.Gen[fixt.A]", "fixt.Gen[fixt2.B]", "subjson.J", "stdjson.RawMessage", "fixt.Gen[dotted.D]", "fixt.PA", "fixt.Gen[stdtime.Duration]"}
 Ctors = {"ptr", "slice", "array3", "array0", "chan", "mapS", "mapK", "struct1", "struct2", "struct3"}
 Targets = {"fixt", "fixt2", "clash-pre", "dotted"}
 Views = {"types", "reflect"}
INIT GenInit
NEXT GenNone
INVARIANT EmitCase
CHECK_DEADLOCK FALSE
