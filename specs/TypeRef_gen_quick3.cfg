CONSTANTS Depth = 4
 Width = 2
 LeafIds = {"pA"}
INIT GenInit
NEXT GenNext
INVARIANT EmitCase DesignRoundTrip DesignSplit
CHECK_DEADLOCK FALSE
