---------------------------- MODULE PipelineHist ----------------------------
(* Loop B for the pipeline properties: the state graph of this machine IS the set of histories that are replayed
   into the real gengo. A state is a history (prefix . tail): the prefix brings the module into an interesting
   pre-state (fresh, generated once, converged, with planted files), the tail is built step by step from a menu of
   environment actions and runs (with fault placement). Every state whose last step is a run is one case.
   The semantics of the steps is NOT evaluated here: PipelineTrace judges what the real code did against the macro
   view that Loop A ties to the fine-grained actions of Pipeline.tla.                                               *)
EXTENDS PipelineBase, TLC, Json

CONSTANTS Menu,        \* name of the menu / prefix family (one per property)
          MaxTail,     \* bound on the tail length
          Layouts,     \* layouts to generate for
          AllPlants,   \* C07: TRUE = every set of at most two plantable files (+ some larger ones), FALSE = seven representative subsets
          Lite,        \* BOOLEAN: quick tier - fewer pre-states / behaviour configurations / run shapes
          Flavours     \* set of [newer, stateful, variant]: generator flavour (custom New / stateful output) and fixture variant

G3 == <<"a", "b", "c">>
PQR == <<"p", "q", "r">>
NoFault == [kind |-> "none", pkg |-> "", gen |-> "", at |-> ""]
Run(all, force, entry, gens, fault) ==
    [op |-> "run", all |-> all, force |-> force, entry |-> entry, gens |-> gens, fault |-> fault, from |-> "", pkg |-> "", file |-> "", gen |-> "", kind |-> ""]
EnvOp(op, pkg, file, gen, kind) ==
    [op |-> op, all |-> FALSE, force |-> FALSE, entry |-> <<>>, gens |-> <<>>, fault |-> NoFault, from |-> "", pkg |-> pkg, file |-> file, gen |-> gen, kind |-> kind]
(* the same run started in the directory of package d instead of the module root *)
From(d, r) == [r EXCEPT !.from = d]

RunAll == Run(TRUE, FALSE, PQR, G3, NoFault)
Edit(p) == EnvOp("edit", p, "", "", "")
AddUser(p, f) == EnvOp("adduser", p, f, "", "")
DelUser(p, f) == EnvOp("deluser", p, f, "", "")
DelOut(p, g) == EnvOp("delout", p, "", g, "")
DelSum == EnvOp("delsum", "", "", "", "")
Corrupt(k) == EnvOp("corruptsum", "", "", "", k)
Fault(k, p, g, at) == [kind |-> k, pkg |-> p, gen |-> g, at |-> at]

(* every single fault: generator error, unparseable rendering, process death by exit and by an unrecovered panic, at each
   GenerateType call and in the deferred callback; plus an error returned by a callback registered from inside a deferred callback *)
AllFaults == ({Fault(k, p, g, at) : k \in {"err", "badsyntax", "die", "panic"}, p \in FixPkgs, g \in {"a", "b"}, at \in {"T1", "T2", "defer"}}
              \ {Fault("badsyntax", p, g, "defer") : p \in FixPkgs, g \in {"a", "b"}})
             \cup {Fault("err", p, g, "nested") : p \in FixPkgs, g \in {"a", "b"}}
             (* ... by GenerateAliasType, for the alias A1 of the fixture variant "alias" (errors and death count there as anywhere) *)
             \cup {Fault(k, p, g, "A1") : k \in {"err", "die"}, p \in FixPkgs, g \in {"a", "b"}}
             (* ... and by the deferred callback of a generator that rendered nothing for the package *)
             \cup {Fault("err", p, g, "qdefer") : p \in FixPkgs, g \in {"a", "b"}}

Perms3 == { <<"p", "q", "r">>, <<"p", "r", "q">>, <<"q", "p", "r">>, <<"q", "r", "p">>, <<"r", "p", "q">>, <<"r", "q", "p">> }
(* C05: every non-empty selection of packages in every order *)
Selections == Perms3 \cup { <<x>> : x \in FixPkgs } \cup { pr \in FixPkgs \X FixPkgs : pr[1] # pr[2] }

UserFiles == {"user.go", "zz_generatedx.go", "zz_generated", "zz_generated.old.go", "notes.txt"}

(* behaviour configurations: which (package, generator) pairs deviate from "render" *)
BehSets ==
    CASE Menu = "C07" -> { <<>>,
                           << <<"p", "a", "nothing">>, <<"p", "b", "ignore">>, <<"q", "a", "skip">>, <<"q", "b", "ignore_render">>, <<"r", "a", "mixed">> >>,
                           << <<"p", "a", "ignore">>, <<"p", "b", "skip">>, <<"p", "c", "nothing">>, <<"q", "a", "ignore_render">>, <<"r", "b", "ignore">> >>,
                           << <<"p", "a", "mixed">>, <<"p", "b", "nothing">>, <<"q", "b", "ignore">>, <<"q", "c", "skip">>, <<"r", "a", "nothing">>, <<"r", "b", "nothing">>, <<"r", "c", "nothing">> >>,
                           (* white space only; something rendered by the deferred callback alone *)
                           << <<"p", "a", "blank">>, <<"p", "b", "defer_only">>, <<"q", "b", "blank">>, <<"r", "b", "defer_only">>, <<"r", "c", "blank">> >>,
                           (* ErrIgnore signalled for an alias type (GenerateAliasType), nothing rendered: the previous file stays *)
                           << <<"p", "a", "ignore_alias">>, <<"p", "b", "nothing">>, <<"q", "b", "ignore_alias">>, <<"r", "b", "ignore_alias">>, <<"r", "c", "nothing">> >> }
      [] Menu = "C02" -> IF Lite THEN { << <<"p", "b", "ignore">>, <<"q", "a", "nothing">> >> }
                         ELSE { <<>>, << <<"p", "b", "ignore">>, <<"q", "a", "nothing">> >> }
      [] Menu = "C05" -> { <<>>, << <<"p", "a", "skip">>, <<"p", "b", "nothing">>, <<"q", "c", "skip">> >> }     \* packages that feed state into an instance without rendering
      [] OTHER -> { <<>>, << <<"q", "b", "ignore">>, <<"r", "c", "nothing">> >> }

Prefixes ==
    CASE Menu = "C08" -> { <<>>, <<RunAll, RunAll>>,
                           <<RunAll, RunAll, AddUser("q", ".#types.go"), RunAll>> }     \* generated once while q's directory cannot be hashed
      [] Menu = "C02" -> IF Lite THEN { <<>>, <<RunAll, RunAll>>, <<RunAll, RunAll, AddUser("p", "zz_generated.old.go"), AddUser("q", "zz_generated.old.go")>> }
                         ELSE { <<>>, <<RunAll>>, <<RunAll, RunAll>>, <<RunAll, RunAll, AddUser("p", "zz_generated.old.go"), AddUser("q", "zz_generated.old.go")>>,
                                <<RunAll, RunAll, DelSum>> }
      [] Menu = "C07" -> { <<>>, <<RunAll>> }                                  \* (plants are chosen as tail steps)
      [] Menu = "C04" -> { <<>>, [i \in 1..8 |-> Run(TRUE, TRUE, PQR, G3, NoFault)], [i \in 1..8 |-> RunAll] }   \* the same run in 8 fresh processes
      [] OTHER -> { <<>> }

TailMenu ==
    CASE Menu = "C08" -> { RunAll, Run(TRUE, TRUE, PQR, G3, NoFault), Run(TRUE, FALSE, <<"r">>, G3, NoFault), Run(FALSE, FALSE, <<"q">>, G3, NoFault),
                           Run(TRUE, FALSE, PQR, G3, Fault("err", "q", "a", "T1")), Run(TRUE, FALSE, <<"q", "p">>, G3, NoFault),
                           From("q", RunAll), From("r", Run(TRUE, FALSE, <<"r">>, G3, NoFault)),
                           Edit("p"), Edit("q"), AddUser("q", "user.go"), DelUser("q", "user.go"), DelOut("p", "a"), AddUser("p", "notes.txt"),
                           DelSum, Corrupt("drop"), Corrupt("wrong"), Corrupt("garbage"), Corrupt("truncate"),
                           Corrupt("shuffle"), Corrupt("noise"),                   \* damage that keeps every entry readable
                           AddUser("q", ".#types.go"), DelUser("q", ".#types.go"),   \* an editor's lock file (a dangling symbolic link): the directory cannot be hashed
                           AddUser("q", "gengo.sum") }   \* a file of that name in a package that is not the module root is a file like any other
      [] Menu = "C02" -> { Run(TRUE, FALSE, PQR, G3, f) : f \in AllFaults } \cup
                         { Run(FALSE, FALSE, <<"r", "q">>, <<"b", "a">>, f) : f \in AllFaults } \cup
                         (IF Lite THEN {} ELSE { Run(TRUE, TRUE, <<"r">>, G3, f) : f \in {x \in AllFaults : x.pkg # "q"} })
      [] Menu = "C07" -> { RunAll, Run(FALSE, FALSE, <<"q">>, G3, NoFault), Run(TRUE, FALSE, <<"r">>, G3, NoFault), Run(TRUE, TRUE, PQR, <<"a">>, NoFault),
                           Run(FALSE, FALSE, <<"p", "r">>, <<"c", "a">>, NoFault), From("q", RunAll), From("r", Run(TRUE, FALSE, <<"r", "q">>, G3, NoFault)),
                           From("q", Run(TRUE, FALSE, <<"q">>, G3, NoFault)) }      \* q alone, started in q's directory: gengo.sum still belongs in the module root
      [] Menu = "C04" -> { Run(TRUE, TRUE, e, G3, NoFault) : e \in Perms3 } \cup { Run(FALSE, FALSE, e, G3, NoFault) : e \in Perms3 } \cup
                         { Run(FALSE, FALSE, <<"r", "p">>, G3, NoFault), Run(TRUE, TRUE, <<"r", "q">>, G3, NoFault), RunAll }
      [] Menu = "C05" -> { Run(all, all, e, G3, NoFault) : all \in BOOLEAN, e \in Selections }
      [] OTHER -> { RunAll }

(* C07: files planted by the environment, in a canonical order (the order is irrelevant to a directory) *)
PlantSeq == << <<"p", "user.go">>, <<"p", "zz_generatedx.go">>, <<"p", "zz_generated">>, <<"p", "zz_generated.old.go">>, <<"p", "notes.txt">>,
               <<"q", "zz_generated.old.go">>, <<"q", "zz_generatedx.go">>,
               (* outputs left behind by an earlier version of generators that still run (kept by ErrIgnore, else rewritten or removed) *)
               <<"p", "zz_generated.a.go">>, <<"p", "zz_generated.b.go">>, <<"q", "zz_generated.b.go">>, <<"r", "zz_generated.b.go">>,
               (* a DIRECTORY whose name starts with the base name and a dot (assets, an unselected sub-package): not an output file *)
               <<"p", "zz_generated.assets/logo.txt">>,
               (* an editor's lock file (dangling symbolic link): q's directory cannot be hashed *)
               <<"q", ".#types.go">> >>
PlantSets == IF AllPlants THEN {S \in SUBSET (1..11) : Cardinality(S) <= 2} \cup {1..Len(PlantSeq), {4, 9, 10}, {2, 3, 7}, {8, 9, 10, 11}, {12}, {13}, {12, 13}}     \* every pair of the first eleven
             ELSE { {}, 1..Len(PlantSeq), {4, 6}, {2, 3, 7}, {1, 5}, {8, 9, 10, 11}, {4, 9, 10}, {12}, {13} }
PlantOps(S) == LET idx == SelectSeq([i \in 1..Len(PlantSeq) |-> i], LAMBDA i : i \in S)
               IN [k \in 1..Len(idx) |-> AddUser(PlantSeq[idx[k]][1], PlantSeq[idx[k]][2])]

VARIABLES layout, behs, prefix, tail, flavour
hvars == <<layout, behs, prefix, tail, flavour>>

HInit == /\ layout \in Layouts /\ behs \in BehSets /\ tail = <<>> /\ flavour \in Flavours
         /\ IF Menu = "C07"
            THEN prefix \in UNION { {PlantOps(S), <<RunAll>> \o PlantOps(S), PlantOps(S) \o <<RunAll>>} : S \in PlantSets }
            ELSE prefix \in Prefixes
HNext == /\ Len(tail) < MaxTail
         /\ (Len(prefix) > 3 /\ Menu = "C08" => Len(tail) < 2)                  \* the long prefix (unhashable directory): tails of at most 2 steps
         /\ \E s \in TailMenu :
              /\ (Menu = "C02" => tail = <<>>)                                   \* exactly one faulty run, then the follow-up run
              /\ (s.fault.at = "A1" => flavour.variant = "alias")                \* only that fixture variant declares the alias A1
              /\ tail' = Append(tail, s)
         /\ UNCHANGED <<layout, behs, prefix, flavour>>

Steps == prefix \o tail \o (IF Menu = "C02" /\ tail # <<>> THEN <<RunAll>> ELSE <<>>)

EmitCase == (tail # <<>> /\ tail[Len(tail)].op = "run") =>
              PrintT(<<"CASE", ToJson([fam |-> "pipeline",
                                       case |-> [layout |-> layout, beh |-> behs, newer |-> flavour.newer, stateful |-> flavour.stateful,
                                                variant |-> flavour.variant, steps |-> Steps]])>>)
=============================================================================
