CONSTANTS Objs <- MCObjs
 ScopeFilter = TRUE
 DagPkgs <- MCDagPkgs
 DagImports <- MCDagImports
 DagRoots = {"a"}
 CreateAfterDeps = TRUE
 Features <- MCFeatures
 MaxFeatures = 0
INIT JInit
NEXT JNext
INVARIANT Verdict
CHECK_DEADLOCK FALSE
