CONSTANTS Kinds <- MCKinds
 DocPatterns <- MCDocPatternsSmall
 FieldPatterns <- MCFieldPatterns
 FieldDocPatterns <- MCFieldDocPatterns
INIT JInit
NEXT JNext
INVARIANT Verdict
CHECK_DEADLOCK FALSE
