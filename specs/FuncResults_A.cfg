CONSTANTS Funcs <- MCFuncs
 NRes = 2
 Calls <- MCCalls
 MarkEveryIndex = TRUE
 Shapes <- MCShapes
INIT AInitA
NEXT ANextA
INVARIANT C14_Terminates
CHECK_DEADLOCK FALSE
