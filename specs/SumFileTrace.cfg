CONSTANTS PathSeq <- MCPathSeq
 Hashes <- MCHashes
 RawLines <- MCRawLines
 MaxLines = 0
INIT JInit
NEXT JNext
INVARIANT Verdict
CHECK_DEADLOCK FALSE
