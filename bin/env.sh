# Sourced by every script: the exact toolchain /repo's own test-suite runs under (see DESIGN.md section 4).
export VERIF_ROOT="${VERIF_ROOT:-$(cd "$(dirname "${BASH_SOURCE[0]}")/.." && pwd)}"
export VERIF_REPO="${VERIF_REPO:-/repo}"
unset GOSUMDB
export GOFLAGS=-mod=mod GOPROXY=off GOTOOLCHAIN=auto GONOSUMDB='*' GONOSUMCHECK=1 GOFLAGS=-mod=mod
if [ -z "${GOROOT124:-}" ]; then
  GOROOT124="$(cd "$VERIF_REPO" && go env GOROOT)"
fi
export GOROOT124
export PATH="$GOROOT124/bin:$PATH"
export GOTOOLCHAIN=local
