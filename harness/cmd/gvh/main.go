// gvh: the Go side of the conformance loops (DESIGN.md section 4).
//
//	gvh exec --family F --in cases.ndjson --out trace.ndjson   concretise + execute cases on the real code
//	gvh rand --family F --n N --out cases.ndjson               random abstract cases beyond TLC's bounds
//	gvh child ...                                              supervised child (process death, fresh map seeds)
package main

import (
	"flag"
	"fmt"
	"os"

	"verif/harness/internal/core"
	_ "verif/harness/internal/fam"
)

func die(f string, a ...any) {
	fmt.Fprintf(os.Stderr, "gvh: "+f+"\n", a...)
	os.Exit(2)
}

func main() {
	if len(os.Args) < 2 {
		die("usage: gvh exec|rand|child ...")
	}
	switch os.Args[1] {
	case "exec":
		fs := flag.NewFlagSet("exec", flag.ExitOnError)
		fam := fs.String("family", "", "family")
		in := fs.String("in", "", "cases ndjson")
		out := fs.String("out", "", "trace ndjson")
		startID := fs.Int("start-id", 0, "first trace id")
		_ = fs.Parse(os.Args[2:])
		f, ok := core.Families[*fam]
		if !ok {
			die("unknown family %q", *fam)
		}
		inf, err := os.Open(*in)
		if err != nil {
			die("%v", err)
		}
		defer inf.Close()
		outf, err := os.Create(*out)
		if err != nil {
			die("%v", err)
		}
		w := core.NewOut(outf)
		seed := core.Seed()
		id := *startID
		nCases := 0
		if bf, ok := f.(core.BatchFamily); ok {
			var all []core.CaseIn
			if err := core.ReadCases(inf, func(c core.CaseIn) error { all = append(all, c); return nil }); err != nil {
				die("%v", err)
			}
			err := bf.ExecAll(all, seed, func(c core.CaseIn, cas, conc, obs any) {
				id++
				src := c.Src
				if src == "" {
					src = "tlc"
				}
				if cas == nil {
					cas = c.Case
				}
				if e := w.Write(core.Rec{Fam: *fam, ID: id, CID: c.ID, Src: src, Seed: seed, Case: cas, Conc: conc, Obs: obs}); e != nil {
					die("%v", e)
				}
			})
			if err != nil {
				die("exec %s: %v", *fam, err)
			}
			if err := w.Flush(); err != nil {
				die("%v", err)
			}
			outf.Close()
			fmt.Printf("{\"cases\":%d,\"lines\":%d}\n", len(all), w.N())
			return
		}
		err = core.ReadCases(inf, func(c core.CaseIn) error {
			nCases++
			rng := core.RNG(seed, uint64(c.ID)*2654435761+uint64(len(c.Src)))
			src := c.Src
			if src == "" {
				src = "tlc"
			}
			return f.Exec(c, rng, func(cas, conc, obs any) {
				id++
				if cas == nil {
					cas = c.Case
				}
				if e := w.Write(core.Rec{Fam: *fam, ID: id, CID: c.ID, Src: src, Seed: seed, Case: cas, Conc: conc, Obs: obs}); e != nil {
					die("%v", e)
				}
			})
		})
		if err != nil {
			die("exec %s: %v", *fam, err)
		}
		if err := w.Flush(); err != nil {
			die("%v", err)
		}
		outf.Close()
		fmt.Printf("{\"cases\":%d,\"lines\":%d}\n", nCases, w.N())
	case "rand":
		fs := flag.NewFlagSet("rand", flag.ExitOnError)
		fam := fs.String("family", "", "family")
		n := fs.Int("n", 100, "number of cases")
		out := fs.String("out", "", "cases ndjson")
		startID := fs.Int("start-id", 1000000, "first case id")
		_ = fs.Parse(os.Args[2:])
		f, ok := core.Families[*fam]
		if !ok {
			die("unknown family %q", *fam)
		}
		outf, err := os.Create(*out)
		if err != nil {
			die("%v", err)
		}
		w := core.NewOut(outf)
		id := *startID
		err = f.Rand(*n, core.RNG(core.Seed(), 7), func(cas any) {
			id++
			_ = w.Write(map[string]any{"fam": *fam, "id": id, "src": "rand", "case": cas})
		})
		if err != nil {
			die("rand %s: %v", *fam, err)
		}
		_ = w.Flush()
		outf.Close()
		fmt.Printf("{\"cases\":%d}\n", w.N())
	case "child":
		if err := core.RunChild(os.Args[2:]); err != nil {
			die("child: %v", err)
		}
	default:
		die("unknown command %q", os.Args[1])
	}
}
