module verif/harness

go 1.24.2

require (
	github.com/octohelm/gengo v0.0.0
	golang.org/x/mod v0.24.0
	golang.org/x/text v0.24.0
	mvdan.cc/gofumpt v0.8.0
	pgregory.net/rapid v1.3.0
)

require (
	github.com/go-courier/logr v0.3.2 // indirect
	github.com/google/go-cmp v0.7.0 // indirect
	github.com/octohelm/x v0.0.0-20250409031213-9c254440c2b8 // indirect
	golang.org/x/sync v0.13.0 // indirect
	golang.org/x/tools v0.32.0 // indirect
)

replace github.com/octohelm/gengo => /repo
