// Package fixt2 is "another package".
package fixt2

// B is declared in another package.
type B struct {
	Y float64
}

// BS is a named string in another package.
type BS string
