// Package fixt2 is "another package".
package fixt2

import (
	subfixt "verif/harness/internal/fixt/sub/fixt"
	sub2fixt "verif/harness/internal/fixt/sub2/fixt"
)

// B is declared in another package.
type B struct {
	Y float64
}

// BS is a named string in another package.
type BS string

// Two refers to two packages that are both called fixt; a value usually sets only one of the fields.
type Two struct {
	C *subfixt.C
	D *sub2fixt.D
}
