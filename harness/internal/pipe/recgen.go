package pipe

import (
	"context"
	"crypto/sha256"
	"encoding/hex"
	"encoding/json"
	"errors"
	"fmt"
	"go/types"
	"os"
	"path/filepath"
	"sort"
	"strings"
	"sync"

	"github.com/octohelm/gengo/pkg/gengo"
	"github.com/octohelm/gengo/pkg/gengo/snippet"

	_ "github.com/octohelm/gengo/devpkg/deepcopygen"
	_ "github.com/octohelm/gengo/devpkg/defaultergen"
	_ "github.com/octohelm/gengo/devpkg/partialstruct"
	_ "github.com/octohelm/gengo/devpkg/runtimedocgen"
)

// GenSpec selects one recording generator.
type GenSpec struct {
	Name     string `json:"name"`     // a, b, c, ab, a:b
	Newer    bool   `json:"newer"`    // implements GeneratorNewer
	Stateful bool   `json:"stateful"` // output reveals per-instance state (C05)
}

// RunSpec is one NewContext+Execute in a fresh process.
type RunSpec struct {
	Dir      string              `json:"dir"`
	Layout   string              `json:"layout"`
	All      bool                `json:"all"`
	Force    bool                `json:"force"`
	Entry    []string            `json:"entry"`    // package names, in the order given
	From     string              `json:"from"`     // package whose directory is the working directory ("" = module root)
	Patterns []string            `json:"patterns"` // explicit go/packages patterns (overrides Entry)
	Gens     []GenSpec           `json:"gens"`
	Globals  map[string][]string `json:"globals"`
	// Plan: "<pkgpath>|<gen>|<type>" -> behaviour of that GenerateType call (default "render"); see doCall.
	Plan   map[string]string `json:"plan"`
	Log    string            `json:"log"`    // NDJSON callback log, appended at every callback
	Result string            `json:"result"` // final result JSON
	Bodies map[string]string `json:"bodies"` // optional: "<pkgpath>|<gen>|<type>" -> text to render instead of the default
	// Warm: files that the environment edited since the previous run (same size, same modification time). Before the judged
	// run the SAME process loads the module once while each of them still has its earlier content (a read-only
	// NewContext), then puts the edited content back: whatever a load remembers per file name / size / time is stale then.
	Warm []WarmFile `json:"warm"`
}

// WarmFile: absolute path and the content the file had before the environment's edit.
type WarmFile struct {
	Path string `json:"path"`
	Old  string `json:"old"`
}

// swapKeepingTime writes content to path and restores the file's modification time.
func swapKeepingTime(path string, content []byte) ([]byte, error) {
	st, err := os.Stat(path)
	if err != nil {
		return nil, err
	}
	cur, err := os.ReadFile(path)
	if err != nil {
		return nil, err
	}
	if err := os.WriteFile(path, content, st.Mode().Perm()); err != nil {
		return nil, err
	}
	return cur, os.Chtimes(path, st.ModTime(), st.ModTime())
}

// Call is one callback gengo made into a generator.
type Call struct {
	Seq     int    `json:"seq"`
	Kind    string `json:"kind"` // type | alias | defer | new
	Pkg     string `json:"pkg"`  // import path
	Gen     string `json:"gen"`
	Type    string `json:"type"`
	Beh     string `json:"beh"`
	SumNow  string `json:"sum_now"`  // digest of gengo.sum at callback time ("absent")
	OwnNow  string `json:"own_now"`  // digest of this generator's output file for this package at callback time ("absent")
	ObjKind string `json:"obj_kind"` // what go/types says the called-for object is: pkgscope-defined | pkgscope-alias | local | typeparam | foreign
}

var (
	curSpec *RunSpec
	logMu   sync.Mutex
	seq     int
)

func digestFile(p string) string {
	data, err := os.ReadFile(p)
	if err != nil {
		return "absent"
	}
	s := sha256.Sum256(data)
	return hex.EncodeToString(s[:8])
}

func logCall(c Call) {
	logMu.Lock()
	defer logMu.Unlock()
	seq++
	c.Seq = seq
	b, _ := json.Marshal(c)
	f, err := os.OpenFile(curSpec.Log, os.O_APPEND|os.O_CREATE|os.O_WRONLY, 0o644)
	if err == nil {
		_, _ = f.Write(append(b, '\n'))
		_ = f.Close()
	}
}

type genState struct {
	seen    int
	helper  bool
	seenSet map[string]bool // lazily created in a fresh instance; a constructor-made instance brings its own (C05)
}

func ident(gen string) string {
	var b strings.Builder
	for _, r := range gen {
		if r >= 'a' && r <= 'z' || r >= 'A' && r <= 'Z' || r >= '0' && r <= '9' {
			b.WriteRune(r)
		} else {
			b.WriteRune('_')
		}
	}
	return b.String()
}

func objKind(c gengo.Context, obj *types.TypeName) string {
	cur := c.Package("")
	if obj.Pkg() == nil || cur == nil || obj.Pkg().Path() != cur.Pkg().Path() {
		return "foreign"
	}
	if _, ok := obj.Type().(*types.TypeParam); ok {
		return "typeparam"
	}
	if obj.Parent() != obj.Pkg().Scope() {
		return "local"
	}
	if obj.IsAlias() {
		return "pkgscope-alias"
	}
	return "pkgscope-defined"
}

func ownFile(c gengo.Context, gen string) string {
	return filepath.Join(c.Package("").SourceDir(), Base+"."+gen+".go")
}

func sumFile() string { return filepath.Join(curSpec.Dir, "gengo.sum") }

func doCall(kind, gen string, stateful bool, st *genState, c gengo.Context, obj *types.TypeName) error {
	pkgPath := c.Package("").Pkg().Path()
	key := pkgPath + "|" + gen + "|" + obj.Name()
	beh := curSpec.Plan[key]
	if beh == "" {
		beh = "render"
	}
	logCall(Call{Kind: kind, Pkg: pkgPath, Gen: gen, Type: obj.Name(), Beh: beh, SumNow: digestFile(sumFile()), OwnNow: digestFile(ownFile(c, gen)), ObjKind: objKind(c, obj)})
	render := func() {
		if body, ok := curSpec.Bodies[key]; ok {
			if strings.HasPrefix(body, "SCRIPT:") {
				if err := RenderScript(body[len("SCRIPT:"):], c.Render); err != nil {
					panic(err)
				}
			} else {
				c.Render(snippet.Block(body))
			}
		} else {
			c.RenderT("\nfunc (@Type) Gen_@Gen() {}\n", snippet.IDArg("Type", obj), snippet.Arg("Gen", snippet.Block(ident(gen))))
			// the output depends on everything gengo reports about the declaration: its complete effective tag set and its documentation
			tags, doc := c.Doc(obj)
			keys := make([]string, 0, len(tags))
			for k, vs := range tags {
				keys = append(keys, k+"="+strings.Join(vs, ","))
			}
			sort.Strings(keys)
			c.Render(snippet.Comment(fmt.Sprintf("tags of %s: %s\ndoc of %s: %s", obj.Name(), strings.Join(keys, " "), obj.Name(), strings.Join(doc, " | "))))
			c.Render(snippet.Block("\n"))
		}
		if stateful {
			c.Render(snippet.Block(fmt.Sprintf("\n// instance had seen %d type(s) (%d distinct) before %s\n", st.seen, len(st.seenSet), obj.Name())))
			// a package-specific import whose preferred local name (util) is the same for every package
			lib := "lib1"
			if strings.HasSuffix(pkgPath, "/q") {
				lib = "lib2"
			}
			if strings.HasPrefix(obj.Name(), "U") {
				// the many types of the "big" variant refer to six packages whose preferred local name is the same
				lib = fmt.Sprintf("lib%d", 3+int(obj.Name()[len(obj.Name())-1]-'0')%6)
			}
			c.Render(snippet.Snippets(func(yield func(snippet.Snippet) bool) {
				_ = yield(snippet.Block("\nvar _ ")) && yield(snippet.ID(ModPath+"/"+lib+"/util.T")) && yield(snippet.Block("\n"))
			}))
			if obj.Name() == "T2" {
				// ONE template whose two arguments refer to two packages called codec: the argument the TEMPLATE mentions first
				// is rendered first and gets the short name - not the one that sorts first, not the one a map yields first
				c.RenderT("\nvar _ = [2]any{new(@Zed), new(@Alpha)}\n",
					snippet.Arg("Alpha", snippet.ID(ModPath+"/lib10/codec.T")), snippet.Arg("Zed", snippet.ID(ModPath+"/lib9/codec.T")))
			}
			if obj.Name() == "T2" {
				// two generators' files of one package bind the same path differently: in b's file lib12/model takes the short name
				// first, in every other file lib11/model has it - each file keeps its own table, whatever the package's other files say
				if gen == "b" {
					c.Render(snippet.Snippets(func(yield func(snippet.Snippet) bool) {
						_ = yield(snippet.Block("\nvar _ ")) && yield(snippet.ID(ModPath+"/lib12/model.T")) && yield(snippet.Block("\n"))
					}))
				}
				c.Render(snippet.Snippets(func(yield func(snippet.Snippet) bool) {
					_ = yield(snippet.Block("\nvar _ ")) && yield(snippet.ID(ModPath+"/lib11/model.T")) && yield(snippet.Block("\n"))
				}))
			}
			if strings.HasSuffix(pkgPath, "/p") && obj.Name() == "T1" {
				// p's file refers to BOTH packages called util (one of them gets a longer local name there); q's file refers to
				// lib2/util alone and calls it util - whatever p's file had to call it
				c.Render(snippet.Snippets(func(yield func(snippet.Snippet) bool) {
					_ = yield(snippet.Block("\nvar _ ")) && yield(snippet.ID(ModPath+"/lib2/util.T")) && yield(snippet.Block("\n"))
				}))
			}
		}
	}
	st.seen++
	if st.seenSet == nil {
		st.seenSet = map[string]bool{}
	}
	st.seenSet[pkgPath+"."+obj.Name()] = true
	deferHelper := func(mode string) {
		outer := c
		c.Defer(func(c gengo.Context) error {
			logCall(Call{Kind: "defer", Pkg: pkgPath, Gen: gen, Type: obj.Name(), Beh: mode, SumNow: digestFile(sumFile()), OwnNow: digestFile(ownFile(c, gen))})
			switch mode {
			case "defer_err":
				return errors.New("planned defer failure")
			case "defer_die":
				os.Exit(7)
			case "defer_panic":
				panic("planned panic in a deferred callback")
			case "defer_nested_err":
				c.Defer(func(c gengo.Context) error {
					logCall(Call{Kind: "defer", Pkg: pkgPath, Gen: gen, Type: obj.Name() + "/nested", Beh: "nested_err", SumNow: digestFile(sumFile()), OwnNow: digestFile(ownFile(c, gen))})
					return errors.New("planned nested defer failure")
				})
			case "defer_nested_outer":
				// the follow-up is registered through the context GenerateType was given, not through the callback's argument
				outer.Defer(func(c gengo.Context) error {
					logCall(Call{Kind: "defer", Pkg: pkgPath, Gen: gen, Type: obj.Name() + "/nested", Beh: "nested_outer", SumNow: digestFile(sumFile()), OwnNow: digestFile(ownFile(c, gen))})
					c.Render(snippet.Block(fmt.Sprintf("\nfunc nested_outer_%s_%s() {}\n", ident(gen), obj.Name())))
					return nil
				})
			case "defer_nested2":
				// two follow-ups registered by one callback while other callbacks are still waiting
				for _, suffix := range []string{"/nested", "/nested2"} {
					c.Defer(func(c gengo.Context) error {
						logCall(Call{Kind: "defer", Pkg: pkgPath, Gen: gen, Type: obj.Name() + suffix, Beh: "nested2", SumNow: digestFile(sumFile()), OwnNow: digestFile(ownFile(c, gen))})
						c.Render(snippet.Block(fmt.Sprintf("\nfunc nested2_%s_%s_%s() {}\n", ident(gen), obj.Name(), ident(suffix[1:]))))
						return nil
					})
				}
			case "defer_nested":
				c.Defer(func(c gengo.Context) error {
					logCall(Call{Kind: "defer", Pkg: pkgPath, Gen: gen, Type: obj.Name() + "/nested", Beh: "nested", SumNow: digestFile(sumFile()), OwnNow: digestFile(ownFile(c, gen))})
					c.Render(snippet.Block(fmt.Sprintf("\nfunc nested_%s_%s() {}\n", ident(gen), obj.Name())))
					return nil
				})
			}
			if !st.helper || !stateful {
				st.helper = true
				c.Render(snippet.Block(fmt.Sprintf("\nfunc helper_%s_%s() {}\n", ident(gen), obj.Name())))
			}
			return nil
		})
	}
	switch beh {
	case "render":
		render()
	case "nothing":
	case "skip":
		return gengo.ErrSkip
	case "skip_wrapped":
		return fmt.Errorf("not for me: %w", gengo.ErrSkip)
	case "ignore":
		return gengo.ErrIgnore
	case "ignore_wrapped":
		return fmt.Errorf("keep previous: %w", gengo.ErrIgnore)
	case "err":
		return errors.New("planned generator failure")
	case "badsyntax":
		c.Render(snippet.Block("\nfunc broken( {\n"))
	case "die":
		os.Exit(7)
	case "panic":
		panic("planned generator panic")
	case "render_defer_panic":
		render()
		deferHelper("defer_panic")
	case "render_defer_nested_err":
		render()
		deferHelper("defer_nested_err")
	case "render_defer", "defer_ok":
		render()
		deferHelper("defer_ok")
	case "render_defer_err":
		render()
		deferHelper("defer_err")
	case "render_defer_die":
		render()
		deferHelper("defer_die")
	case "render_defer_nested":
		render()
		deferHelper("defer_nested")
	case "render_defer_nested_outer":
		render()
		deferHelper("defer_nested_outer")
	case "render_defer_nested2":
		render()
		deferHelper("defer_nested2")
	case "render_skip": // finds out that the type is to be skipped only after having rendered for it
		render()
		return gengo.ErrSkip
	case "blank": // white space only
		c.Render(snippet.Block("\n  \n\t\n"))
	case "nothing_defer": // renders nothing itself; its deferred callback does
		deferHelper("defer_ok")
	case "nothing_defer_err": // renders nothing, and its deferred callback fails
		deferHelper("defer_err")
	default:
		return fmt.Errorf("unknown planned behaviour %q", beh)
	}
	return nil
}

// ---- generator types: the name is carried by a type parameter so that reflect.New yields a working instance

type namer interface{ N() string }

type (
	nA   struct{}
	nB   struct{}
	nC   struct{}
	nAB  struct{}
	nAcB struct{}
)

func (nA) N() string   { return "a" }
func (nB) N() string   { return "b" }
func (nC) N() string   { return "c" }
func (nAB) N() string  { return "ab" }
func (nAcB) N() string { return "a:b" }

// rec: plain generator (instantiated by gengo through reflect.New)
type rec[N namer] struct{ st genState }

func (g *rec[N]) Name() string { var n N; return n.N() }
func (g *rec[N]) GenerateType(c gengo.Context, t *types.Named) error {
	return doCall("type", g.Name(), false, &g.st, c, t.Obj())
}
func (g *rec[N]) GenerateAliasType(c gengo.Context, t *types.Alias) error {
	return doCall("alias", g.Name(), false, &g.st, c, t.Obj())
}

// recS: stateful output
type recS[N namer] struct{ st genState }

func (g *recS[N]) Name() string { var n N; return n.N() }
func (g *recS[N]) GenerateType(c gengo.Context, t *types.Named) error {
	return doCall("type", g.Name(), true, &g.st, c, t.Obj())
}
func (g *recS[N]) GenerateAliasType(c gengo.Context, t *types.Alias) error {
	return doCall("alias", g.Name(), true, &g.st, c, t.Obj())
}

// recN / recNS: with a custom New
type recN[N namer] struct{ rec[N] }

func (g *recN[N]) New(c gengo.Context) gengo.Generator {
	logCall(Call{Kind: "new", Pkg: c.Package("").Pkg().Path(), Gen: g.Name(), SumNow: digestFile(sumFile()), OwnNow: digestFile(ownFile(c, g.Name()))})
	return &recN[N]{}
}

type recNS[N namer] struct{ recS[N] }

func (g *recNS[N]) New(c gengo.Context) gengo.Generator {
	logCall(Call{Kind: "new", Pkg: c.Package("").Pkg().Path(), Gen: g.Name(), SumNow: digestFile(sumFile()), OwnNow: digestFile(ownFile(c, g.Name()))})
	return &recNS[N]{}
}

func build[N namer](s GenSpec) gengo.Generator {
	switch {
	case s.Newer && s.Stateful:
		return &recNS[N]{recS[N]{st: genState{seenSet: map[string]bool{}}}}
	case s.Newer:
		return &recN[N]{}
	case s.Stateful:
		return &recS[N]{st: genState{seenSet: map[string]bool{}}} // registered through a "constructor"
	}
	return &rec[N]{}
}

func BuildGen(s GenSpec) (gengo.Generator, error) {
	switch s.Name {
	case "runtimedoc", "deepcopy", "partialstruct", "defaulter":
		// the real sample generators of gengo's devpkg (registered by their init functions)
		if gs := gengo.GetRegisteredGenerators(s.Name); len(gs) == 1 {
			return gs[0], nil
		}
		return nil, fmt.Errorf("generator %q is not registered", s.Name)
	case "a":
		return build[nA](s), nil
	case "b":
		return build[nB](s), nil
	case "c":
		return build[nC](s), nil
	case "ab":
		return build[nAB](s), nil
	case "a:b":
		return build[nAcB](s), nil
	}
	return nil, fmt.Errorf("unknown generator name %q", s.Name)
}

// RunResult is what the child reports when it survives.
type RunResult struct {
	LoadErr string `json:"load_err"`
	Err     string `json:"err"`
	Panic   string `json:"panic"`
}

// RunChild: gvh child pipeline-run <spec.json>
func RunChild(args []string) error {
	if len(args) != 1 {
		return fmt.Errorf("usage: pipeline-run spec.json")
	}
	data, err := os.ReadFile(args[0])
	if err != nil {
		return err
	}
	var spec RunSpec
	if err := json.Unmarshal(data, &spec); err != nil {
		return err
	}
	curSpec = &spec
	cwd := spec.Dir
	if spec.From != "" {
		cwd = filepath.Join(spec.Dir, Layouts[spec.Layout][spec.From])
	}
	if err := os.Chdir(cwd); err != nil {
		return err
	}
	devnull, _ := os.OpenFile(os.DevNull, os.O_WRONLY, 0)
	os.Stdout = devnull
	var gens []gengo.Generator
	for _, gs := range spec.Gens {
		g, err := BuildGen(gs)
		if err != nil {
			return err
		}
		gens = append(gens, g)
	}
	patterns := spec.Patterns
	if len(patterns) == 0 {
		for _, e := range spec.Entry {
			rel, err := filepath.Rel(cwd, filepath.Join(spec.Dir, Layouts[spec.Layout][e]))
			if err != nil {
				return err
			}
			if rel == "." {
				patterns = append(patterns, ".")
			} else if strings.HasPrefix(rel, "..") {
				patterns = append(patterns, filepath.ToSlash(rel))
			} else {
				patterns = append(patterns, "./"+filepath.ToSlash(rel))
			}
		}
	}
	res := RunResult{}
	if len(spec.Warm) > 0 {
		// an earlier load in this process, on the module as it was before the environment's last edits
		edited := make([][]byte, len(spec.Warm))
		for i, w := range spec.Warm {
			cur, err := swapKeepingTime(w.Path, []byte(w.Old))
			if err != nil {
				return err
			}
			edited[i] = cur
		}
		_, _ = gengo.NewContext(&gengo.GeneratorArgs{Globals: spec.Globals, Entrypoint: patterns, OutputFileBaseName: Base, All: spec.All, Force: spec.Force})
		for i, w := range spec.Warm {
			if _, err := swapKeepingTime(w.Path, edited[i]); err != nil {
				return err
			}
		}
	}
	func() {
		// no recover: a panic inside gengo or a generator kills the process, as it would kill a real gengo run
		ex, err := gengo.NewContext(&gengo.GeneratorArgs{Globals: spec.Globals, Entrypoint: patterns, OutputFileBaseName: Base, All: spec.All, Force: spec.Force})
		if err != nil {
			res.LoadErr = err.Error()
			return
		}
		if err := ex.Execute(context.Background(), gens...); err != nil {
			res.Err = err.Error()
		}
	}()
	b, _ := json.Marshal(res)
	return os.WriteFile(spec.Result, b, 0o644)
}

// ScriptPart is one piece of a scripted Render call: literal text, or a reference rendered through the naming system.
type ScriptPart struct {
	T  string `json:"t,omitempty"`
	ID string `json:"id,omitempty"` // "<import path>.<Name>" rendered with snippet.ID
	// Tmpl: text rendered with snippet.T; it is handed two arguments, "used" (= ID Used) and "unused" (= ID Unused), of which
	// the template text mentions only @used
	Tmpl   string `json:"tmpl,omitempty"`
	Used   string `json:"used,omitempty"`
	Unused string `json:"unused,omitempty"`
}

// RenderScript renders a JSON script [[part...]...]: one Render call per inner list.
func RenderScript(js string, render func(snippet.Snippet)) error {
	var calls [][]ScriptPart
	if err := json.Unmarshal([]byte(js), &calls); err != nil {
		return err
	}
	for _, parts := range calls {
		ss := make([]snippet.Snippet, 0, len(parts))
		for _, p := range parts {
			if p.Tmpl != "" {
				ss = append(ss, snippet.T(p.Tmpl, snippet.Args{"used": snippet.ID(p.Used), "unused": snippet.ID(p.Unused)}))
			} else if p.ID != "" {
				ss = append(ss, snippet.ID(p.ID))
			} else {
				ss = append(ss, snippet.Block(p.T))
			}
		}
		render(snippet.Snippets(func(yield func(snippet.Snippet) bool) {
			for _, s := range ss {
				if !yield(s) {
					return
				}
			}
		}))
	}
	return nil
}
