// Package fixt (a third one with the same name) so that two packages that are both called fixt can be referenced
// from different entries of one map literal.
package fixt

// D is declared in the third package called fixt.
type D struct {
	W int
}
