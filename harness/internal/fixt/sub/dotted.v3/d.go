// Package dotted lives in a directory whose name contains a dot (like gopkg.in/yaml.v3).
package dotted

// D is a named type of that package.
type D struct {
	N int
}
