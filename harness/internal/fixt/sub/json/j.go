// Package json is a package of the module whose name is that of a standard library package.
package json

import stdjson "encoding/json"

// J is declared in a package called json that is not encoding/json.
type J struct {
	Raw stdjson.RawMessage
}
