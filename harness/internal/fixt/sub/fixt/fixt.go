// Package fixt (another one with the same name, under a different path) provokes import-name clashes.
package fixt

// C is declared in the clashing package.
type C struct {
	Z bool
}

// CI is a named integer in the clashing package.
type CI int
