// Package fixt holds the named types the literal families (C10, C11) render: it is compiled into the harness (reflect view)
// and loaded from source with gengo's own loader (go/types view).
package fixt

// A is a plain struct.
type A struct {
	N int
	S string
}

// AI is a named integer.
type AI int

// AS is a named string.
type AS string

// AB is a named bool.
type AB bool

// AF is a named float.
type AF float64

// Gen is a generic struct.
type Gen[T any] struct {
	V T
}

// Inner is embedded by Outer.
type Inner struct {
	X int
}

// Outer has nested and pointer fields.
type Outer struct {
	Name  string
	In    Inner
	PIn   *Inner
	PS    *string
	PI    *int
	PAI   *AI
	List  []int
	M     map[string]int
	Arr   [2]bool
	MA    map[AI]string
	SA    []A
	MS    map[string]Inner
	F32   float32
	R     rune
	U8    uint8
	I64   int64
	Named AS
}

// Instantiations that exist at run time (reflect cannot instantiate generics).
var (
	_ Gen[int]
	_ Gen[A]
	_ Gen[string]
)
