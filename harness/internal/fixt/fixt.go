// Package fixt holds the named types the literal families (C10, C11) render: it is compiled into the harness (reflect view)
// and loaded from source with gengo's own loader (go/types view).
package fixt

import "time"

import "verif/harness/internal/fixt2"

// A is a plain struct.
type A struct {
	N int
	S string
}

// AI is a named integer.
type AI int

// AS is a named string.
type AS string

// AB is a named bool.
type AB bool

// AF is a named float.
type AF float64

// Gen is a generic struct.
type Gen[T any] struct {
	V T
}

// Inner is embedded by Outer.
type Inner struct {
	X int
}

// Outer has nested and pointer fields.
type Outer struct {
	Name  string
	In    Inner
	PIn   *Inner
	PS    *string
	PI    *int
	PAI   *AI
	List  []int
	M     map[string]int
	Arr   [2]bool
	MA    map[AI]string
	SA    []A
	MS    map[string]Inner
	F32   float32
	R     rune
	U8    uint8
	I64   int64
	Named AS
}

// Cross is a struct whose fields have types of ANOTHER package than its own.
type Cross struct {
	Name string
	B    fixt2.B
	PB   *fixt2.B
	SB   []fixt2.B
	MB   map[string]fixt2.B
	BS   fixt2.BS
}

// CrossArr has an array (never "empty") of the other package's struct.
type CrossArr struct {
	Name string
	AB   [1]fixt2.B
}

// Instantiations that exist at run time (reflect cannot instantiate generics).
var (
	_ Gen[int]
	_ Gen[A]
	_ Gen[string]
)

// Chain is a singly linked list: a pointer field of the struct's own type (C10: values nested to any depth).
type Chain struct {
	N    int
	Next *Chain
}

// PA is a NAMED pointer type: its name denotes it, not the pointer literal *A.
type PA *A

// (fixt refers to a std package with a one-element import path, for Gen[time.Duration])
var _ time.Duration
