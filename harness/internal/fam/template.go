package fam

import (
	"bytes"
	"context"
	"encoding/json"
	"fmt"
	"iter"
	"math/rand/v2"
	"reflect"
	"slices"
	"strings"
	"unicode/utf8"

	"github.com/octohelm/gengo/pkg/gengo"
	"github.com/octohelm/gengo/pkg/gengo/snippet"
	"github.com/octohelm/gengo/pkg/namer"

	"verif/harness/internal/core"
)

// template (C09): snippet.T / Sprintf / Comment / GoDirective / Snippets / Fragments.
//
// case: {"api", "fmt": code points, "args": kinds (Sprintf, Snippets) or texts (GoDirective), "env": [[name cps, kind]...]}
// obs : {"panicked","panic_msg","out": code points}
type templateFam struct{}

func init() { core.Register("template", templateFam{}) }

type templateCase struct {
	API  string              `json:"api"`
	Fmt  []int               `json:"fmt"`
	Args []json.RawMessage   `json:"args"`
	Env  [][]json.RawMessage `json:"env"`
}

// snippetOf builds the argument of the given kind (Template.tla, Rendering).
func snippetOf(kind string) (snippet.Snippet, error) {
	switch kind {
	case "lit":
		return snippet.Block("LIT"), nil
	case "at":
		return snippet.Block("@a'x"), nil
	case "nested":
		return snippet.T("<@i>", snippet.Arg("i", snippet.Block("N"))), nil
	case "snips":
		return snippet.Snippets(slices.Values([]snippet.Snippet{snippet.Block("P"), snippet.Block(""), snippet.Block("Q")})), nil
	case "empty":
		return snippet.Block(""), nil
	case "idnil":
		return snippet.ID(nil), nil
	case "nil":
		return nil, nil
	case "snip":
		return snippet.Block("S"), nil
	case "self":
		return snippet.ID("self.io/me.T"), nil
	}
	return nil, fmt.Errorf("unknown snippet kind %q", kind)
}

func sprintfArg(kind string) (any, error) {
	switch kind {
	case "int7":
		return 7, nil
	case "str":
		return "s", nil
	case "snip":
		return snippet.Block("S"), nil
	case "rtype":
		return reflect.TypeOf(0), nil
	case "name":
		return "fmt.Stringer", nil
	}
	return nil, fmt.Errorf("unknown sprintf arg kind %q", kind)
}

func renderIn(self string, v snippet.Snippet) (core.Panic, []int) {
	buf := bytes.NewBuffer(nil)
	tracker := namer.NewDefaultImportTracker()
	sw := gengo.NewSnippetWriter(buf, namer.NameSystems{"raw": namer.NewRawNamer(self, tracker)})
	p := core.Try(func() { sw.Render(v) })
	out := []int{}
	if !p.Panicked {
		out = core.CPs(buf.String())
	}
	return p, out
}

// renderOut renders the snippet in the file of package self.io/me. A snippet is a value: the SAME value is then rendered into
// the file of another package and must come out there like a freshly built one (reusable = false: the value wraps a
// one-shot sequence and can be rendered only once).
func renderOut(s func() snippet.Snippet, reusable bool) map[string]any {
	v := s()
	p, out := renderIn("self.io/me", v)
	obs := map[string]any{"panicked": p.Panicked, "panic_msg": p.Msg, "panic_site": p.Site, "out": out, "reuse_judged": false,
		"out_again": []int{}, "out_fresh": []int{}, "panicked_again": false, "panicked_fresh": false}
	if reusable {
		p2, out2 := renderIn("other.io/you", v)
		p3, out3 := renderIn("other.io/you", s())
		obs["reuse_judged"], obs["out_again"], obs["out_fresh"], obs["panicked_again"], obs["panicked_fresh"] = true, out2, out3, p2.Panicked, p3.Panicked
	}
	return obs
}

func (templateFam) Exec(c core.CaseIn, rng *rand.Rand, emit func(cas, conc, obs any)) error {
	var tc templateCase
	if err := json.Unmarshal(c.Case, &tc); err != nil {
		return err
	}
	format := core.FromCPs(tc.Fmt)
	kinds := func() ([]string, error) {
		ks := make([]string, len(tc.Args))
		for i, a := range tc.Args {
			if err := json.Unmarshal(a, &ks[i]); err != nil {
				return nil, err
			}
		}
		return ks, nil
	}
	var mk func() snippet.Snippet
	oneShot := false
	switch tc.API {
	case "T":
		args := snippet.Args{}
		for _, pair := range tc.Env {
			var name []int
			var kind string
			if len(pair) != 2 || json.Unmarshal(pair[0], &name) != nil || json.Unmarshal(pair[1], &kind) != nil {
				return fmt.Errorf("bad env entry")
			}
			s, err := snippetOf(kind)
			if err != nil {
				return err
			}
			args[core.FromCPs(name)] = s
		}
		if c.ID%3 == 2 && len(args) > 0 {
			// one Args map shared by several T calls, each with a binding of its own next to it (a loop over fields that
			// passes the common arguments plus the field's): the first template is rendered after the others were built
			names := core.SortedKeys(args)
			own := names[0]
			common := snippet.Args{}
			for _, n := range names[1:] {
				common[n] = args[n]
			}
			mk = func() snippet.Snippet {
				t := snippet.T(format, common, snippet.Arg(own, args[own]))
				_ = snippet.T("@"+own, common, snippet.Arg(own, snippet.Block("OTHER")))
				_ = snippet.T("x", common, snippet.Arg("late", snippet.Block("LATE")))
				if len(common) != len(names)-1 {
					return snippet.Block("THE CALLER'S MAP WAS CHANGED")
				}
				return t
			}
		} else if c.ID%2 == 1 {
			// the same bindings handed over one by one (Arg), with a nil TArg in between, instead of as one Args map
			var list []snippet.TArg
			for _, name := range core.SortedKeys(args) {
				list = append(list, snippet.Arg(name, args[name]), nil)
			}
			mk = func() snippet.Snippet { return snippet.T(format, list...) }
		} else {
			// one Args map, which the caller goes on using for something else once T has returned (a generator that
			// fills the same map in a loop and renders the collected snippets later): the bindings are those of the call
			mk = func() snippet.Snippet {
				mine := snippet.Args{}
				for k, v := range args {
					mine[k] = v
				}
				t := snippet.T(format, mine)
				for k := range mine {
					mine[k] = snippet.Block("REBOUND")
				}
				for _, k := range []string{"a", "b", "ab", "zz"} {
					if _, ok := args[k]; ok {
						delete(mine, k)
					} else {
						mine[k] = snippet.Block("LATE")
					}
				}
				return t
			}
		}
	case "Sprintf":
		ks, err := kinds()
		if err != nil {
			return err
		}
		as := make([]any, len(ks))
		for i, k := range ks {
			if as[i], err = sprintfArg(k); err != nil {
				return err
			}
		}
		mk = func() snippet.Snippet { return snippet.Sprintf(format, as...) }
	case "Comment":
		mk = func() snippet.Snippet { return snippet.Comment(format) }
	case "GoDirective":
		as := make([]string, len(tc.Args))
		for i, a := range tc.Args {
			var cps []int
			if err := json.Unmarshal(a, &cps); err != nil {
				return err
			}
			as[i] = core.FromCPs(cps)
		}
		mk = func() snippet.Snippet { return snippet.GoDirective(format, as...) }
	case "Snippets", "Fragments":
		ks, err := kinds()
		if err != nil {
			return err
		}
		parts := make([]snippet.Snippet, len(ks))
		for i, k := range ks {
			if parts[i], err = snippetOf(k); err != nil {
				return err
			}
		}
		if tc.API == "Snippets" && c.ID%2 == 1 {
			// a sequence that can be consumed once only (parts produced on demand): whatever is taken from it is gone
			oneShot = true
			mk = func() snippet.Snippet {
				i := 0
				return snippet.Snippets(func(yield func(snippet.Snippet) bool) {
					for i < len(parts) {
						p := parts[i]
						i++
						if !yield(p) {
							return
						}
					}
				})
			}
		} else if tc.API == "Snippets" {
			mk = func() snippet.Snippet { return snippet.Snippets(slices.Values(parts)) }
		} else {
			// Fragments(ctx, s) applied to each part and concatenated by a Func snippet
			mk = func() snippet.Snippet {
				return snippet.Func(func(ctx context.Context) iter.Seq[string] {
					return func(yield func(string) bool) {
						for _, p := range parts {
							for code := range snippet.Fragments(ctx, p) {
								if !yield(code) {
									return
								}
							}
						}
					}
				})
			}
		}
	default:
		return fmt.Errorf("unknown api %q", tc.API)
	}
	emit(nil, map[string]any{"text": format}, renderOut(mk, !oneShot))
	if tc.API == "Snippets" {
		// the same parts through Fragments
		var m map[string]any
		_ = json.Unmarshal(c.Case, &m)
		m["api"] = "Fragments"
		b, _ := json.Marshal(m)
		c2 := c
		c2.Case = b
		return templateFam{}.Exec(c2, rng, func(_, conc, obs any) { emit(json.RawMessage(b), conc, obs) })
	}
	return nil
}

// random formats far beyond TLC's bound: long, full Unicode (minus NUL/BOM which text/scanner alters by design)
func (templateFam) Rand(n int, rng *rand.Rand, emit func(cas any)) error {
	names := []string{"a", "b", "_", "7", "aa", "ab", "ba", "a7", "Type", "x_1", "zz"}
	kinds := []string{"lit", "empty", "at", "nested", "snips", "nil", "idnil"}
	punct := []rune("@@@'''%% \n\t-.,;:(){}[]<>*&|\"`\\/#$^~+=!?éß世界😀𝐀٣")
	for i := 0; i < n; i++ {
		env := [][]any{}
		bound := map[string]bool{}
		for _, nm := range names {
			if rng.IntN(4) > 0 {
				env = append(env, []any{core.CPs(nm), kinds[rng.IntN(len(kinds))]})
				bound[nm] = true
			}
		}
		var b strings.Builder
		ln := rng.IntN(60)
		for j := 0; j < ln; j++ {
			switch rng.IntN(6) {
			case 0, 1:
				b.WriteByte('@')
				nm := names[rng.IntN(len(names))]
				if !bound[nm] && rng.IntN(8) > 0 { // mostly bound names, so long formats do not all panic
					for _, k := range names {
						if bound[k] {
							nm = k
							break
						}
					}
				}
				b.WriteString(nm)
				if rng.IntN(3) == 0 {
					b.WriteByte('\'')
				}
			case 2:
				b.WriteRune(punct[rng.IntN(len(punct))])
			case 3:
				b.WriteString([]string{"func", " x ", "\n\n", "0", "_", "A"}[rng.IntN(6)])
			default:
				var r rune
				for {
					r = rune(rng.IntN(0x2000))
					if rng.IntN(5) == 0 {
						r = rune(rng.IntN(0x110000))
					}
					if utf8.ValidRune(r) && r != 0 && r != 0xFEFF {
						break
					}
				}
				b.WriteRune(r)
			}
		}
		emit(map[string]any{"api": "T", "fmt": core.CPs(b.String()), "args": []string{}, "env": env})
	}
	// Sprintf: long formats with matching / missing args
	for i := 0; i < n/2; i++ {
		var b strings.Builder
		args := []string{}
		ln := rng.IntN(40)
		for j := 0; j < ln; j++ {
			switch rng.IntN(7) {
			case 0:
				b.WriteString("%v")
				if rng.IntN(12) > 0 {
					args = append(args, []string{"int7", "str", "snip"}[rng.IntN(3)])
				}
			case 1:
				b.WriteString("%T")
				if rng.IntN(12) > 0 {
					args = append(args, []string{"snip", "rtype", "name"}[rng.IntN(3)])
				}
			case 2:
				b.WriteString("%%")
			case 3:
				if rng.IntN(10) == 0 {
					b.WriteString("%d")
				} else if r := punct[rng.IntN(len(punct))]; r != '%' {
					b.WriteRune(r)
				}
			default:
				var r rune
				for {
					r = rune(rng.IntN(0x3000))
					if utf8.ValidRune(r) && r != 0 && r != 0xFEFF && r != '%' {
						break
					}
				}
				b.WriteRune(r)
			}
		}
		f := b.String()
		// keep the args list exactly as long as the verbs need up to the first missing one (no surplus args)
		emit(map[string]any{"api": "Sprintf", "fmt": core.CPs(f), "args": args, "env": [][]any{}})
	}
	return nil
}
