package fam

import (
	"bytes"
	"encoding/json"
	"fmt"
	"go/ast"
	"go/parser"
	"go/token"
	"go/types"
	"math"
	"math/rand/v2"
	"os"
	"os/exec"
	"path/filepath"
	"reflect"
	"strings"

	"github.com/octohelm/gengo/pkg/gengo"
	"github.com/octohelm/gengo/pkg/gengo/snippet"
	"github.com/octohelm/gengo/pkg/namer"
	gengotypes "github.com/octohelm/gengo/pkg/types"

	"verif/harness/internal/canon"
	"verif/harness/internal/core"
	"verif/harness/internal/fixt"
	subfixt "verif/harness/internal/fixt/sub/fixt"
	sub2fixt "verif/harness/internal/fixt/sub2/fixt"
	"verif/harness/internal/fixt2"
)

// valuelit (C10): Go values rendered with snippet.Value, type-checked one by one, then compiled and evaluated together.
//
// case: {"shape": s, "leaf": {"t": type, "c": class}}
// obs : {"panicked","text","same_text_twice","check_errors","type_ok","ran","canon_got","canon_want"}
type valuelitFam struct{}

func init() { core.Register("valuelit", valuelitFam{}) }

type vlCase struct {
	Seed  uint64 `json:"seed"` // shape "random": the value is grown from this seed
	Shape string `json:"shape"`
	Leaf  struct {
		T string `json:"t"`
		C string `json:"c"`
	} `json:"leaf"`
}

func (valuelitFam) Exec(c core.CaseIn, rng *rand.Rand, emit func(cas, conc, obs any)) error {
	return fmt.Errorf("valuelit is a batch family")
}

func leafValue(t, c string) (reflect.Value, error) {
	long := strings.Repeat("long \"text\" with `quotes` and\ttabs; ", 9)
	str := map[string]string{"empty": "", "quotes": "a\"b'c\\d", "newline": "a\nb\tc\r", "backquote": "a`b``", "nonutf8": "\xff\xfe\x80a", "unicode": "世界 é   \U0001F600", "long": long}
	switch t {
	case "bool":
		return reflect.ValueOf(c == "true"), nil
	case "AB":
		return reflect.ValueOf(fixt.AB(c == "true")), nil
	case "int", "int64", "int8", "AI":
		var x int64
		bits := map[string]int{"int": 64, "int64": 64, "int8": 8, "AI": 64}[t]
		switch c {
		case "zero":
		case "one":
			x = 1
		case "neg":
			x = -17
		case "min":
			x = -1 << (bits - 1)
		case "max":
			x = 1<<(bits-1) - 1
		default:
			return reflect.Value{}, fmt.Errorf("class %s/%s", t, c)
		}
		switch t {
		case "int":
			return reflect.ValueOf(int(x)), nil
		case "int64":
			return reflect.ValueOf(x), nil
		case "int8":
			return reflect.ValueOf(int8(x)), nil
		}
		return reflect.ValueOf(fixt.AI(x)), nil
	case "uint8", "uint64":
		var x uint64
		switch c {
		case "zero":
		case "one":
			x = 1
		case "max":
			x = math.MaxUint64
			if t == "uint8" {
				x = 255
			}
		}
		if t == "uint8" {
			return reflect.ValueOf(uint8(x)), nil
		}
		return reflect.ValueOf(x), nil
	case "rune":
		r := map[string]rune{"zero": 0, "printable": 'a', "quote": '\'', "nonprintable": 7, "maxrune": 0x10FFFF, "neg": -1}[c]
		return reflect.ValueOf(r), nil
	case "float64", "AF":
		f := map[string]float64{"zero": 0, "negzero": math.Copysign(0, -1), "subnormal": 5e-324, "max": math.MaxFloat64, "tenth": 0.1, "big": 1e300, "negtenth": -0.1}[c]
		if t == "AF" {
			return reflect.ValueOf(fixt.AF(f)), nil
		}
		return reflect.ValueOf(f), nil
	case "float32":
		f := map[string]float32{"zero": 0, "negzero": float32(math.Copysign(0, -1)), "subnormal": math.SmallestNonzeroFloat32, "max": math.MaxFloat32, "tenth": 0.1, "third": float32(1) / 3}[c]
		return reflect.ValueOf(f), nil
	case "string":
		return reflect.ValueOf(str[c]), nil
	case "AS":
		return reflect.ValueOf(fixt.AS(str[c])), nil
	case "A":
		if c == "set" {
			return reflect.ValueOf(fixt.A{N: 3, S: "s"}), nil
		}
		return reflect.ValueOf(fixt.A{}), nil
	case "B":
		if c == "set" {
			return reflect.ValueOf(fixt2.B{Y: 2.5}), nil
		}
		return reflect.ValueOf(fixt2.B{}), nil
	}
	return reflect.Value{}, fmt.Errorf("unknown leaf type %q", t)
}

func ptrTo(v reflect.Value) reflect.Value {
	p := reflect.New(v.Type())
	p.Elem().Set(v)
	return p
}

var vlLeafClasses = map[string][]string{
	"bool": {"true", "false"}, "int": {"zero", "one", "neg", "min", "max"}, "int64": {"zero", "one", "neg", "min", "max"}, "int8": {"zero", "one", "neg", "min", "max"},
	"uint8": {"zero", "one", "max"}, "uint64": {"zero", "one", "max"}, "rune": {"zero", "printable", "quote", "nonprintable", "maxrune", "neg"},
	"float64": {"zero", "negzero", "subnormal", "max", "tenth", "big", "negtenth"}, "float32": {"zero", "negzero", "subnormal", "max", "tenth", "third"},
	"string": {"empty", "quotes", "newline", "backquote", "nonutf8", "unicode", "long"}, "AI": {"zero", "one", "max"}, "AS": {"empty", "quotes"}, "AB": {"true", "false"},
	"AF": {"tenth", "zero"}, "A": {"zero", "set"}, "B": {"zero", "set"},
}

// randomValue grows a nested value (slices, arrays, maps with several key types, pointers to scalars and structs) over the leaf classes.
func randomValue(rng *rand.Rand, depth int) reflect.Value {
	leafTypes := core.SortedKeys(vlLeafClasses)
	leaf := func(t string) reflect.Value {
		cl := vlLeafClasses[t]
		v, _ := leafValue(t, cl[rng.IntN(len(cl))])
		return v
	}
	var typ func(d int) (reflect.Type, func() reflect.Value)
	typ = func(d int) (reflect.Type, func() reflect.Value) {
		if d <= 0 || rng.IntN(4) == 0 {
			t := leafTypes[rng.IntN(len(leafTypes))]
			return leaf(t).Type(), func() reflect.Value { return leaf(t) }
		}
		switch rng.IntN(5) {
		case 0: // slice
			et, mk := typ(d - 1)
			return reflect.SliceOf(et), func() reflect.Value {
				if rng.IntN(6) == 0 {
					return reflect.Zero(reflect.SliceOf(et))
				}
				s := reflect.MakeSlice(reflect.SliceOf(et), 0, 3)
				for i, n := 0, rng.IntN(4); i < n; i++ {
					s = reflect.Append(s, mk())
				}
				return s
			}
		case 1: // array
			et, mk := typ(d - 1)
			return reflect.ArrayOf(2, et), func() reflect.Value {
				a := reflect.New(reflect.ArrayOf(2, et)).Elem()
				a.Index(0).Set(mk())
				if rng.IntN(2) == 0 {
					a.Index(1).Set(mk())
				}
				return a
			}
		case 2: // map
			kt := []string{"string", "int", "AI", "bool", "AS", "uint8", "rune"}[rng.IntN(7)]
			et, mk := typ(d - 1)
			mt := reflect.MapOf(leaf(kt).Type(), et)
			return mt, func() reflect.Value {
				if rng.IntN(6) == 0 {
					return reflect.Zero(mt)
				}
				m := reflect.MakeMap(mt)
				for i, n := 0, rng.IntN(4); i < n; i++ {
					m.SetMapIndex(leaf(kt), mk())
				}
				return m
			}
		case 3: // pointer to a scalar or a struct (single level)
			t := leafTypes[rng.IntN(len(leafTypes))]
			return reflect.PointerTo(leaf(t).Type()), func() reflect.Value {
				if rng.IntN(5) == 0 {
					return reflect.Zero(reflect.PointerTo(leaf(t).Type()))
				}
				return ptrTo(leaf(t))
			}
		default: // a struct with container fields
			return reflect.TypeOf(fixt.Outer{}), func() reflect.Value {
				o := fixt.Outer{Name: "r"}
				if rng.IntN(2) == 0 {
					o.List = []int{1, -2}
				}
				if rng.IntN(2) == 0 {
					o.M = map[string]int{"z": 26, "a": 1}
				}
				if rng.IntN(2) == 0 {
					s := "ptr"
					o.PS = &s
				}
				if rng.IntN(2) == 0 {
					o.MS = map[string]fixt.Inner{"k": {}, "j": {X: rng.IntN(5)}}
				}
				if rng.IntN(2) == 0 {
					o.PIn = &fixt.Inner{}
				}
				return reflect.ValueOf(o)
			}
		}
	}
	_, mk := typ(depth)
	return mk()
}

func buildValue(vc vlCase) (reflect.Value, error) {
	if vc.Shape == "random" {
		return randomValue(rand.New(rand.NewPCG(vc.Seed, 99)), 3), nil
	}
	L, err := leafValue(vc.Leaf.T, vc.Leaf.C)
	if err != nil {
		return reflect.Value{}, err
	}
	T := L.Type()
	zero := reflect.Zero(T)
	str := reflect.TypeOf("")
	sliceOf := func(et reflect.Type, vs ...reflect.Value) reflect.Value {
		s := reflect.MakeSlice(reflect.SliceOf(et), 0, len(vs))
		return reflect.Append(s, vs...)
	}
	mapOf := func(kt, et reflect.Type, kv ...reflect.Value) reflect.Value {
		m := reflect.MakeMap(reflect.MapOf(kt, et))
		for i := 0; i+1 < len(kv); i += 2 {
			m.SetMapIndex(kv[i], kv[i+1])
		}
		return m
	}
	outer := func(set func(o *fixt.Outer)) reflect.Value {
		o := fixt.Outer{}
		set(&o)
		return reflect.ValueOf(o)
	}
	switch vc.Shape {
	case "leaf":
		return L, nil
	case "slice2":
		return sliceOf(T, L, zero), nil
	case "array2":
		a := reflect.New(reflect.ArrayOf(2, T)).Elem()
		a.Index(0).Set(L)
		return a, nil
	case "mapS":
		return mapOf(str, T, reflect.ValueOf("k"), L, reflect.ValueOf("a b"), zero), nil
	case "emptySlice":
		return sliceOf(T), nil
	case "nilSlice":
		return reflect.Zero(reflect.SliceOf(T)), nil
	case "emptyMap":
		return mapOf(str, T), nil
	case "nilMap":
		return reflect.Zero(reflect.MapOf(str, T)), nil
	case "sliceOfSlice":
		return sliceOf(reflect.SliceOf(T), sliceOf(T, L), sliceOf(T)), nil
	case "mapOfSlice":
		return mapOf(str, reflect.SliceOf(T), reflect.ValueOf("k"), sliceOf(T, L)), nil
	case "ptrSlice": // a pointer to a slice / to a map (composite literals are addressable, conversions are not)
		return ptrTo(sliceOf(T, L, L)), nil
	case "ptrMap":
		return ptrTo(mapOf(str, T, reflect.ValueOf("k"), L)), nil
	case "ptr":
		return ptrTo(L), nil
	case "sliceOfPtr":
		return sliceOf(reflect.PointerTo(T), ptrTo(L), reflect.Zero(reflect.PointerTo(T))), nil
	case "mapOfPtr":
		return mapOf(str, reflect.PointerTo(T), reflect.ValueOf("k"), ptrTo(L)), nil
	case "ptrStruct":
		return ptrTo(L), nil
	case "mapKey":
		m := mapOf(T, reflect.TypeOf(0), L, reflect.ValueOf(1))
		if !reflect.DeepEqual(zero.Interface(), L.Interface()) {
			m.SetMapIndex(zero, reflect.ValueOf(2))
		}
		// integer keys: the two neighbours as well (keys that differ only in their last bit must still be ordered)
		switch L.Kind() {
		case reflect.Int, reflect.Int8, reflect.Int16, reflect.Int32, reflect.Int64:
			lo, hi := reflect.New(T).Elem(), reflect.New(T).Elem()
			lo.SetInt(L.Int() - 1)
			hi.SetInt(L.Int() + 1)
			if lo.Int() < L.Int() {
				m.SetMapIndex(lo, reflect.ValueOf(3))
			}
			if hi.Int() > L.Int() {
				m.SetMapIndex(hi, reflect.ValueOf(4))
			}
		case reflect.Uint, reflect.Uint8, reflect.Uint16, reflect.Uint32, reflect.Uint64:
			lo, hi := reflect.New(T).Elem(), reflect.New(T).Elem()
			lo.SetUint(L.Uint() - 1)
			hi.SetUint(L.Uint() + 1)
			if lo.Uint() < L.Uint() {
				m.SetMapIndex(lo, reflect.ValueOf(3))
			}
			if hi.Uint() > L.Uint() {
				m.SetMapIndex(hi, reflect.ValueOf(4))
			}
		}
		return m, nil
	case "genericV":
		switch x := L.Interface().(type) {
		case int:
			return reflect.ValueOf(fixt.Gen[int]{V: x}), nil
		case string:
			return reflect.ValueOf(fixt.Gen[string]{V: x}), nil
		case fixt.A:
			return reflect.ValueOf(fixt.Gen[fixt.A]{V: x}), nil
		}
	case "outerPS":
		s := L.String()
		return outer(func(o *fixt.Outer) { o.PS = &s }), nil
	case "outerPI":
		i := int(L.Int())
		return outer(func(o *fixt.Outer) { o.PI = &i; o.Name = "n" }), nil
	case "outerInX":
		return outer(func(o *fixt.Outer) { o.In.X = int(L.Int()) }), nil
	case "outerPInX":
		return outer(func(o *fixt.Outer) { o.PIn = &fixt.Inner{X: int(L.Int())} }), nil
	case "structAN":
		return reflect.ValueOf(fixt.A{N: int(L.Int()), S: "x"}), nil
	case "outerPAI":
		a := L.Interface().(fixt.AI)
		return outer(func(o *fixt.Outer) { o.PAI = &a }), nil
	case "outerF32":
		return outer(func(o *fixt.Outer) { o.F32 = float32(L.Float()) }), nil
	case "outerR":
		return outer(func(o *fixt.Outer) { o.R = rune(L.Int()) }), nil
	case "outerNamed":
		return outer(func(o *fixt.Outer) { o.Named = L.Interface().(fixt.AS) }), nil
	case "outerU8":
		return outer(func(o *fixt.Outer) { o.U8 = uint8(L.Uint()) }), nil
	case "outerI64":
		return outer(func(o *fixt.Outer) { o.I64 = L.Int() }), nil
	case "mapTwoPkgs": // different entries of one map refer to different packages that have the same name
		return reflect.ValueOf(map[string]fixt2.Two{
			"a": {C: &subfixt.C{Z: true}}, "b": {D: &sub2fixt.D{W: 1}}, "c": {C: &subfixt.C{Z: true}}, "d": {D: &sub2fixt.D{W: 2}},
			"e": {D: &sub2fixt.D{W: 3}}, "f": {C: &subfixt.C{}},
		}), nil
	case "crossName": // every field whose type comes from the other package is zero (and may be omitted)
		return reflect.ValueOf(fixt.Cross{Name: "n"}), nil
	case "crossB":
		return reflect.ValueOf(fixt.Cross{B: fixt2.B{Y: 1.5}}), nil
	case "crossPBZero":
		return reflect.ValueOf(fixt.Cross{Name: "n", PB: &fixt2.B{}}), nil
	case "crossSBZero":
		return reflect.ValueOf(fixt.Cross{SB: []fixt2.B{{}, {Y: 2}}}), nil
	case "crossABZero":
		return reflect.ValueOf(fixt.CrossArr{Name: "n", AB: [1]fixt2.B{{}}}), nil
	case "crossAB":
		return reflect.ValueOf(fixt.CrossArr{AB: [1]fixt2.B{{Y: 3}}}), nil
	case "crossMBZero":
		return reflect.ValueOf(fixt.Cross{MB: map[string]fixt2.B{"k": {}}}), nil
	case "crossBS":
		return reflect.ValueOf(fixt.Cross{BS: "bs"}), nil
	case "crossEmpty": // empty, non-nil containers of the other package's type
		return reflect.ValueOf(fixt.Cross{Name: "n", SB: []fixt2.B{}, MB: map[string]fixt2.B{}}), nil
	case "chainDeep": // 40 nodes linked by pointers: nothing about a value's depth makes a pointer nil
		var head *fixt.Chain
		for i := 40; i >= 1; i-- {
			head = &fixt.Chain{N: i, Next: head}
		}
		return reflect.ValueOf(*head), nil
	case "outerZero":
		return outer(func(o *fixt.Outer) {}), nil
	case "outerPInZero":
		return outer(func(o *fixt.Outer) { o.PIn = &fixt.Inner{}; o.Name = "z" }), nil
	case "outerMSZero":
		return outer(func(o *fixt.Outer) { o.MS = map[string]fixt.Inner{"k": {}, "j": {X: 1}} }), nil
	case "outerSAZero":
		return outer(func(o *fixt.Outer) { o.SA = []fixt.A{{}, {N: 1}} }), nil
	case "outerAll":
		s, i, ai := "p", 5, fixt.AI(6)
		return outer(func(o *fixt.Outer) {
			*o = fixt.Outer{Name: "all", In: fixt.Inner{X: 1}, PIn: &fixt.Inner{X: 2}, PS: &s, PI: &i, PAI: &ai, List: []int{1, 2}, M: map[string]int{"b": 2, "a": 1},
				Arr: [2]bool{true, false}, MA: map[fixt.AI]string{2: "two", 1: "one", 10: "ten"}, SA: []fixt.A{{N: 1}}, MS: map[string]fixt.Inner{"k": {X: 3}}, F32: 1.5, R: 'x', U8: 200, I64: -9, Named: "nm"}
		}), nil
	}
	return reflect.Value{}, fmt.Errorf("shape %s does not accept leaf %s", vc.Shape, vc.Leaf.T)
}

// typeExpr: Go source for a reflect type with the aliases f1 (fixt), f2 (fixt2) - the harness's own independent printer.
func typeExpr(t reflect.Type) string {
	if t.PkgPath() != "" {
		alias := map[string]string{fixtPath: "f1", fixt2Path: "f2", clashPath: "f3"}[t.PkgPath()]
		name := t.Name()
		name = strings.ReplaceAll(name, fixtPath+".", "f1.")
		name = strings.ReplaceAll(name, fixt2Path+".", "f2.")
		return alias + "." + name
	}
	switch t.Kind() {
	case reflect.Pointer:
		return "*" + typeExpr(t.Elem())
	case reflect.Slice:
		return "[]" + typeExpr(t.Elem())
	case reflect.Array:
		return fmt.Sprintf("[%d]%s", t.Len(), typeExpr(t.Elem()))
	case reflect.Map:
		return "map[" + typeExpr(t.Key()) + "]" + typeExpr(t.Elem())
	}
	return t.String()
}

func vlFile(imports map[string]string, decl string) []byte {
	var b bytes.Buffer
	b.WriteString("package main\n\nimport (\n")
	for _, p := range core.SortedKeys(imports) {
		fmt.Fprintf(&b, "\t%s %q\n", imports[p], p)
	}
	fmt.Fprintf(&b, "\tf1 %q\n\tf2 %q\n)\n\nvar _ f1.A\n\nvar _ f2.B\n\n%s\n", fixtPath, fixt2Path, decl)
	return b.Bytes()
}

func vlCheck(u *gengotypes.Universe, src []byte, name string) (t types.Type, isConst bool, errs []string) {
	fset := token.NewFileSet()
	f, err := parser.ParseFile(fset, "case.go", src, 0)
	if err != nil {
		return nil, false, []string{"parse: " + err.Error()}
	}
	errs = []string{}
	info := &types.Info{Types: map[ast.Expr]types.TypeAndValue{}}
	conf := types.Config{Importer: universeImporter{u}, Error: func(err error) { errs = append(errs, err.Error()) }}
	pkg, _ := conf.Check("main", fset, []*ast.File{f}, info)
	if len(errs) > 0 || pkg == nil {
		return nil, false, errs
	}
	obj := pkg.Scope().Lookup(name)
	if obj == nil {
		return nil, false, []string{name + " not found"}
	}
	for _, d := range f.Decls {
		if gd, ok := d.(*ast.GenDecl); ok {
			for _, sp := range gd.Specs {
				if vs, ok := sp.(*ast.ValueSpec); ok && len(vs.Names) == 1 && vs.Names[0].Name == name && len(vs.Values) == 1 {
					if tv, ok := info.Types[vs.Values[0]]; ok && (tv.Value != nil || tv.IsNil()) {
						isConst = true // an untyped constant, or the untyped nil: assignable to the value's type without having a type of its own
					}
				}
			}
		}
	}
	return obj.Type(), isConst, errs
}

func (valuelitFam) ExecAll(cases []core.CaseIn, seed int64, emit func(c core.CaseIn, cas, conc, obs any)) error {
	u, err := fixtUniverse()
	if err != nil {
		return fmt.Errorf("load fixture packages: %w", err)
	}
	type item struct {
		obs     map[string]any
		text    string
		imports map[string]string
		runs    bool
	}
	items := make([]item, len(cases))
	for i, c := range cases {
		var vc vlCase
		if err := json.Unmarshal(c.Case, &vc); err != nil {
			return err
		}
		v, err := buildValue(vc)
		if err != nil {
			return err
		}
		render := func() (string, map[string]string, core.Panic) {
			tracker := namer.NewDefaultImportTracker()
			buf := bytes.NewBuffer(nil)
			sw := gengo.NewSnippetWriter(buf, namer.NameSystems{"raw": namer.NewRawNamer("main", tracker)})
			pn := core.Try(func() { sw.Render(snippet.Value(v.Interface())) })
			return buf.String(), tracker.Imports(), pn
		}
		text, imports, pn := render()
		obs := map[string]any{"panicked": pn.Panicked, "panic_msg": pn.Msg, "panic_site": pn.Site, "text": text, "same_text_twice": true, "check_errors": []string{}, "type_ok": false,
			"ran": false, "canon_got": "", "canon_want": canon.Canon(v.Interface()), "go_type": v.Type().String()}
		if !pn.Panicked {
			for k := 0; k < 8; k++ {
				t2, imp2, _ := render()
				if t2 != text || fmt.Sprint(imp2) != fmt.Sprint(imports) {
					obs["same_text_twice"] = false
				}
				imports = imp2 // what a later file of the same process would import
			}
			// (1) does the expression compile, with the imports it registered, where a value of its type is expected?
			vt, isConst, errsV := vlCheck(u, vlFile(imports, "var V "+typeExpr(v.Type())+" = "+text), "V")
			if len(errsV) == 0 {
				// (2) does it have the value's type itself (or is it an untyped constant representable in it)?
				wt, _, errsW := vlCheck(u, vlFile(imports, "var W = "+text), "W")
				obs["type_ok"] = isConst || (len(errsW) == 0 && types.TypeString(wt, nil) == types.TypeString(vt, nil))
				if len(errsW) == 0 {
					obs["lit_type"], obs["want_type"] = types.TypeString(wt, nil), types.TypeString(vt, nil)
				}
				items[i].runs = true
			} else if _, _, errsW := vlCheck(u, vlFile(imports, "var W = "+text), "W"); len(errsW) == 0 {
				// compiles on its own but not as a value of the type: a typing problem
				obs["type_ok"] = false
				obs["type_errors"] = errsV
			} else {
				obs["check_errors"] = errsV
			}
		}
		items[i].obs, items[i].text, items[i].imports = obs, text, imports
	}
	// (3) evaluate: one program, one file per case
	scratch, err := core.ScratchDir("valuelit-")
	if err != nil {
		return err
	}
	defer os.RemoveAll(scratch)
	files := map[string]string{"go.mod": "module verif/harness\n\ngo 1.24\n"}
	for _, rel := range []string{"internal/fixt/fixt.go", "internal/fixt/sub/fixt/fixt.go", "internal/fixt/sub2/fixt/fixt.go", "internal/fixt2/fixt2.go", "internal/canon/canon.go"} {
		data, err := os.ReadFile(filepath.Join(harnessDir(), rel))
		if err != nil {
			return err
		}
		files[rel] = string(data)
	}
	files["cmd/vlcheck/main.go"] = `package main

import (
	"encoding/json"
	"os"

	"verif/harness/internal/canon"
)

var results = map[int]string{}

func register(i int, v any) { results[i] = canon.Canon(v) }

func main() { _ = json.NewEncoder(os.Stdout).Encode(results) }
`
	n := 0
	for i := range items {
		if !items[i].runs {
			continue
		}
		n++
		var vc vlCase
		_ = json.Unmarshal(cases[i].Case, &vc)
		v, _ := buildValue(vc)
		files[fmt.Sprintf("cmd/vlcheck/lit%dcase.go", i)] = string(vlFile(items[i].imports, fmt.Sprintf("var v%d %s = %s\n\nfunc init() { register(%d, v%d) }", i, typeExpr(v.Type()), items[i].text, i, i)))
	}
	if n > 0 {
		if err := core.WriteFiles(scratch, files); err != nil {
			return err
		}
		cmd := exec.Command("go", "run", "./cmd/vlcheck")
		cmd.Dir = scratch
		cmd.Env = append(os.Environ(), "GOFLAGS=-mod=mod")
		var so, se bytes.Buffer
		cmd.Stdout, cmd.Stderr = &so, &se
		if err := cmd.Run(); err != nil {
			return fmt.Errorf("the value check program does not build or run although every case type-checked on its own: %v\n%s", err, tail(se.String(), 1500))
		}
		got := map[int]string{}
		if err := json.Unmarshal(so.Bytes(), &got); err != nil {
			return err
		}
		for i := range items {
			if items[i].runs {
				items[i].obs["ran"] = true
				items[i].obs["canon_got"] = got[i]
			}
		}
	}
	for i, c := range cases {
		emit(c, nil, map[string]any{}, items[i].obs)
	}
	return nil
}

func (valuelitFam) Rand(n int, rng *rand.Rand, emit func(cas any)) error {
	for i := 0; i < n; i++ {
		emit(map[string]any{"shape": "random", "seed": rng.Uint64() >> 12, "leaf": map[string]string{"t": "int", "c": "zero"}})
	}
	return nil
}
