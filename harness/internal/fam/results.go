package fam

import (
	"bufio"
	"bytes"
	"encoding/json"
	"fmt"
	"go/ast"
	"go/constant"
	"go/types"
	"math/rand/v2"
	"os"
	"os/exec"
	"path/filepath"
	"runtime/debug"
	"sort"
	"strings"
	"time"

	gengotypes "github.com/octohelm/gengo/pkg/types"

	"verif/harness/internal/core"
)

// results (C14): Package.ResultsOf on every function and method, in a supervised child with a bounded stack.
//
// case: {"kind":"synthetic","shapes":[s1,s2,s3]} | {"kind":"corpus"}; one trace line per unit (function / method)
// obs : {"declared_n","n","lens","not_assignable","again_equal","alts","panicked","fatal","timeout"}
type resultsFam struct{}

func init() {
	core.Register("results", resultsFam{})
	core.Children["results-run"] = resultsChild
}

type resultsCase struct {
	Kind   string   `json:"kind"`
	Shapes []string `json:"shapes"`
}

func (resultsFam) Exec(c core.CaseIn, rng *rand.Rand, emit func(cas, conc, obs any)) error {
	return fmt.Errorf("results is a batch family")
}

// shapeSource returns the declarations for function number i (name f<i>) of the given shape; next is the name of a
// function with signature func() (int, error) to forward to, or "".
func shapeSource(i int, shape string, next string) (string, error) {
	f := fmt.Sprintf("f%d", i)
	switch shape {
	case "lit1":
		return fmt.Sprintf("func %s() int { return 1 }\n", f), nil
	case "lit2":
		return fmt.Sprintf("func %s(c bool) int {\n\tif c {\n\t\treturn 1\n\t}\n\treturn 2\n}\n", f), nil
	case "litops":
		return fmt.Sprintf("func %s(c, d bool) any {\n\tif c {\n\t\treturn 1 + 2\n\t}\n\tif d {\n\t\treturn \"a\" + \"b\"\n\t}\n\treturn -(9 / 2) * 2\n}\n", f), nil
	case "litbool":
		return fmt.Sprintf("func %s(c bool) bool {\n\tif c {\n\t\treturn true\n\t}\n\treturn !true\n}\n", f), nil
	case "litpair":
		return fmt.Sprintf("func %s(c bool) (int, error) {\n\tif c {\n\t\treturn 1, nil\n\t}\n\treturn 2, nil\n}\n", f), nil
	case "self":
		return fmt.Sprintf("func %s(n int) (int, error) {\n\tif n == 0 {\n\t\treturn 0, nil\n\t}\n\treturn %s(n - 1)\n}\n", f, f), nil
	case "mutual":
		return fmt.Sprintf("func %s(n int) (int, error) {\n\tif n == 0 {\n\t\treturn 1, nil\n\t}\n\treturn w%d(n - 1)\n}\n\nfunc w%d(n int) (int, error) {\n\tif n < 0 {\n\t\treturn 0, errX\n\t}\n\treturn %s(n)\n}\n", f, i, i, f), nil
	case "closure":
		return fmt.Sprintf("func %s() error {\n\treturn c%d(func() (int, string, error) {\n\t\treturn 1, \"s\", nil\n\t})\n}\n\nfunc c%d(fn func() (int, string, error)) error {\n\t_, _, err := fn()\n\treturn err\n}\n", f, i, i), nil
	case "closureNamed":
		return fmt.Sprintf("func %s() error {\n\treturn c%d(func() (n int, s string, err error) {\n\t\tn = 1\n\t\tif n > 0 {\n\t\t\terr = errX\n\t\t}\n\t\treturn\n\t})\n}\n\nfunc c%d(fn func() (int, string, error)) error {\n\t_, _, err := fn()\n\treturn err\n}\n", f, i, i), nil
	case "wide":
		return fmt.Sprintf("func %s(n int) (a, b, c, d, e, f2, g, h int, err error) {\n\tif n == 0 {\n\t\treturn 0, 0, 0, 0, 0, 0, 0, 0, errX\n\t}\n\treturn %s(n - 1)\n}\n", f, f), nil
	case "named":
		return fmt.Sprintf("func %s() (n int, err error) {\n\tn = 7\n\tif n > 3 {\n\t\terr = errX\n\t\treturn\n\t}\n\treturn\n}\n", f), nil
	case "forward":
		callee := next
		extra := ""
		if callee == "" {
			callee = fmt.Sprintf("p%d", i)
			extra = fmt.Sprintf("\nfunc %s() (int, error) { return 5, nil }\n", callee)
		}
		return fmt.Sprintf("func %s() (int, error) { return %s() }\n%s", f, callee, extra), nil
	case "foreign":
		return fmt.Sprintf("func %s(s string) (int, error) { return strconv.Atoi(s) }\n", f), nil
	case "iface":
		return fmt.Sprintf("type i%d interface{ Do() (int, error) }\n\nfunc %s(x i%d) (int, error) { return x.Do() }\n\ntype m%d struct{}\n\nfunc (m%d) Do() (int, error) { return 3, errX }\n", i, f, i, i, i), nil
	case "litoctal": // legacy octal spellings: the values are 420 and 493
		return fmt.Sprintf("func %s(c bool) int {\n\tif c {\n\t\treturn 0644\n\t}\n\treturn 0755\n}\n", f), nil
	case "localconst": // a function-local constant; the same name means another value in every function of the package
		return fmt.Sprintf("func %s() int {\n\tconst size = %d\n\treturn size * 2\n}\n", f, 8*i), nil
	case "localconststr": // ... and another type
		return fmt.Sprintf("func %s() string {\n\tconst size = \"s%d\"\n\treturn size + size\n}\n", f, i), nil
	case "chain": // a call chain over two package boundaries: x1.G returns x2.H(), which returns a concrete error type
		return fmt.Sprintf("func %s() error { return x1.G() }\n", f), nil
	case "closure3": // a func literal with FEWER results than the enclosing function, whose return lists a single-result call first
		return fmt.Sprintf("func %s() (n int, s string, err error) {\n\terr = r%d(func() (bool, error) {\n\t\tif k%d() > 1 {\n\t\t\treturn false, errX\n\t\t}\n\t\treturn b%d(), nil\n\t})\n\treturn k%d(), \"s\", err\n}\n\n"+
			"func r%d(attempt func() (bool, error)) error {\n\tdone, err := attempt()\n\tif err != nil || !done {\n\t\treturn err\n\t}\n\treturn nil\n}\n\nfunc b%d() bool { return true }\n\nfunc k%d() int { return 1 }\n",
			f, i, i, i, i, i, i, i), nil
	case "spread": // a slice spread into a variadic parameter
		return fmt.Sprintf("func %s(c bool) error {\n\tvar errs []error\n\terrs = append(errs, errX)\n\tif c {\n\t\treturn errors.Join(errs...)\n\t}\n\treturn j%d(\"m\", errs...)\n}\n\nfunc j%d(msg string, errs ...error) error {\n\tfor _, e := range errs {\n\t\tif e != nil {\n\t\t\treturn e\n\t\t}\n\t}\n\treturn nil\n}\n", f, i, i), nil
	case "assigned":
		return fmt.Sprintf("func %s() error {\n\tvar err error\n\terr = errX\n\tif err != nil {\n\t\treturn err\n\t}\n\treturn nil\n}\n", f), nil
	}
	return "", fmt.Errorf("unknown shape %q", shape)
}

var noArgPair = map[string]bool{"named": true, "forward": true}

func programSource(pkg string, shapes []string) (string, error) {
	var b strings.Builder
	fmt.Fprintf(&b, "package %s\n\nimport (\n\t\"errors\"\n\t\"strconv\"\n\n\t\"example.com/r/x1\"\n)\n\nvar errX = errors.New(\"x\")\n\nvar _ = strconv.Itoa\n\nvar _ = x1.G\n\n", pkg)
	for i, sh := range shapes {
		next := ""
		ni := (i + 1) % len(shapes)
		if ni != i && noArgPair[shapes[ni]] {
			next = fmt.Sprintf("f%d", ni+1)
		}
		src, err := shapeSource(i+1, sh, next)
		if err != nil {
			return "", err
		}
		b.WriteString(src)
		b.WriteString("\n")
	}
	return b.String(), nil
}

// ---- child ---------------------------------------------------------------------------------

type resultsUnit struct {
	Pkg  string `json:"pkg"`
	Name string `json:"name"`
}

func resultString(r gengotypes.Result) string {
	if r.Value != nil {
		return r.Value.ExactString()
	}
	if r.Type != nil {
		if b, ok := r.Type.(*types.Basic); ok && b.Kind() == types.UntypedNil {
			return "nil"
		}
		return "type:" + r.Type.String()
	}
	return "invalid"
}

// constFits: can a constant of this kind be a value of type T (lenient: kinds only, not ranges)
func constFits(v constant.Value, T types.Type) bool {
	u := T.Underlying()
	if _, ok := u.(*types.Interface); ok {
		return true // any, error-like interfaces, type parameters
	}
	b, ok := u.(*types.Basic)
	if !ok {
		return false
	}
	switch v.Kind() {
	case constant.Bool:
		return b.Info()&types.IsBoolean != 0
	case constant.String:
		return b.Info()&types.IsString != 0
	case constant.Int:
		return b.Info()&types.IsNumeric != 0
	case constant.Float:
		return b.Info()&(types.IsFloat|types.IsComplex) != 0 || (b.Info()&types.IsInteger != 0 && constant.ToInt(v).Kind() == constant.Int)
	case constant.Complex:
		return b.Info()&types.IsComplex != 0 || (b.Info()&types.IsNumeric != 0 && constant.ToFloat(v).Kind() == constant.Float)
	}
	return true
}

// gvh child results-run <dir> <skipTo> <outfile> <onlyLocal:0|1>
func resultsChild(args []string) error {
	if len(args) != 4 {
		return fmt.Errorf("usage: results-run dir skipTo outfile onlyLocal")
	}
	dir := args[0]
	var skipTo int
	fmt.Sscan(args[1], &skipTo)
	onlyLocal := args[3] == "1"
	debug.SetMaxStack(48 << 20)
	out, err := os.OpenFile(args[2], os.O_APPEND|os.O_CREATE|os.O_WRONLY, 0o644)
	if err != nil {
		return err
	}
	devnull, _ := os.OpenFile(os.DevNull, os.O_WRONLY, 0)
	os.Stdout = devnull
	u, err := gengotypes.Load([]string{"./..."}, gengotypes.WithDir(dir))
	if err != nil {
		return err
	}
	units := resultsUnits(u, onlyLocal)
	fmt.Fprintf(out, "N %d\n", len(units))
	first := map[int]string{}
	for idx := skipTo; idx < len(units); idx++ {
		un := units[idx]
		key := resultsUnit{Pkg: un.p.Pkg().Path(), Name: un.fn.FullName()}
		kb, _ := json.Marshal(key)
		fmt.Fprintf(out, "S %d %s\n", idx, kb)
		done := make(chan struct{})
		go func(idx int) {
			select {
			case <-done:
			case <-time.After(60 * time.Second): // generous: a busy machine must not look like a non-terminating analysis
				fmt.Fprintf(out, "T %d\n", idx)
				os.Exit(9)
			}
		}(idx)
		obs := map[string]any{"fatal": false, "timeout": false}
		sig := un.fn.Type().(*types.Signature)
		declared := sig.Results().Len()
		obs["declared_n"] = declared
		var res, res2 gengotypes.FuncResults
		var n, n2 int
		pn := core.Try(func() {
			res, n = un.p.ResultsOf(un.fn)
			res2, n2 = un.p.ResultsOf(un.fn)
		})
		close(done)
		obs["panicked"] = pn.Panicked
		obs["panic_msg"] = pn.Msg
		obs["panic_site"] = pn.Site
		lens := []int{}
		notAssignable := []string{}
		alts := [][]string{}
		altConst := [][]bool{} // which alternatives are constants (the others are types)
		if !pn.Panicked {
			for i, rs := range res {
				lens = append(lens, len(rs))
				a := []string{}
				ac := []bool{}
				for _, r := range rs {
					a = append(a, resultString(r))
					ac = append(ac, r.Value != nil)
					if r.Value != nil {
						// a constant: of a kind a value of the declared result type can have
						if i < declared && !constFits(r.Value, sig.Results().At(i).Type()) {
							notAssignable = append(notAssignable, fmt.Sprintf("%d:const %s", i, r.Value.ExactString()))
						}
						continue
					}
					if i < declared && r.Type != nil && types.AssignableTo(r.Type, sig.Results().At(i).Type()) {
						continue
					}
					notAssignable = append(notAssignable, fmt.Sprintf("%d:%s", i, resultString(r)))
				}
				alts = append(alts, a)
				altConst = append(altConst, ac)
			}
		}
		obs["n"] = n
		obs["lens"] = lens
		obs["not_assignable"] = notAssignable
		obs["again_equal"] = !pn.Panicked && n == n2 && res.String() == res2.String()
		obs["alts"] = alts
		obs["alt_is_const"] = altConst
		ob, _ := json.Marshal(obs)
		fmt.Fprintf(out, "D %d %s\n", idx, ob)
		if !pn.Panicked {
			first[idx] = fmt.Sprintf("%d %s", n, res.String())
		}
	}
	fmt.Fprintf(out, "E\n")
	// second pass: everything is asked once more, now that every other function of every package has been asked
	// ("the answer is the same on every call" - whatever was asked in between)
	guard := time.AfterFunc(120*time.Second, func() { os.Exit(9) })
	for idx := skipTo; idx < len(units); idx++ {
		want, ok := first[idx]
		if !ok {
			continue
		}
		un := units[idx]
		same := false
		core.Try(func() {
			res, n := un.p.ResultsOf(un.fn)
			same = fmt.Sprintf("%d %s", n, res.String()) == want
		})
		if !same {
			fmt.Fprintf(out, "R %d\n", idx)
		}
	}
	guard.Stop()
	if onlyLocal {
		// third pass: a FRESH universe of the same module, the units asked in the opposite order - an answer may not depend on
		// what was asked of the universe before it, nor on the order
		guard := time.AfterFunc(180*time.Second, func() { os.Exit(9) })
		if u2, err := gengotypes.Load([]string{"./..."}, gengotypes.WithDir(dir)); err == nil {
			units2 := resultsUnits(u2, onlyLocal)
			if len(units2) == len(units) {
				for idx := len(units2) - 1; idx >= skipTo; idx-- {
					want, ok := first[idx]
					if !ok {
						continue
					}
					un := units2[idx]
					same := false
					core.Try(func() {
						res, n := un.p.ResultsOf(un.fn)
						same = fmt.Sprintf("%d %s", n, res.String()) == want
					})
					if !same {
						fmt.Fprintf(out, "R %d\n", idx)
					}
				}
			}
		}
		guard.Stop()
	}
	fmt.Fprintf(out, "E2\n")
	return out.Close()
}

type resUnit struct {
	p  gengotypes.Package
	fn *types.Func
}

// resultsUnits: every function and method of the packages of the closure (or of the module only), in a fixed order, followed
// by the cross-package units.
func resultsUnits(u *gengotypes.Universe, onlyLocal bool) []resUnit {
	// all packages of the closure, sorted
	seen := map[string]bool{}
	var pkgs []gengotypes.Package
	var walk func(p gengotypes.Package)
	walk = func(p gengotypes.Package) {
		if p == nil || seen[p.Pkg().Path()] {
			return
		}
		seen[p.Pkg().Path()] = true
		pkgs = append(pkgs, p)
		if onlyLocal {
			return
		}
		for _, ip := range p.Pkg().Imports() {
			walk(u.Package(ip.Path()))
		}
	}
	for path := range u.LocalPkgPaths() {
		walk(u.Package(path))
	}
	sort.Slice(pkgs, func(i, j int) bool { return pkgs[i].Pkg().Path() < pkgs[j].Pkg().Path() })
	var units []resUnit
	for _, p := range pkgs {
		scope := p.Pkg().Scope()
		for _, name := range scope.Names() {
			switch obj := scope.Lookup(name).(type) {
			case *types.Func:
				units = append(units, resUnit{p, obj})
			case *types.TypeName:
				if named, ok := obj.Type().(*types.Named); ok && !obj.IsAlias() {
					for i := 0; i < named.NumMethods(); i++ {
						units = append(units, resUnit{p, named.Method(i)})
					}
				}
			}
		}
	}
	// cross-package units: a function of ANOTHER package, asked of the package that calls it through a selector
	// (only for the packages of the loaded module itself)
	crossSeen := map[string]bool{}
	for path := range u.LocalPkgPaths() {
		p := u.Package(path)
		if p == nil {
			continue
		}
		for _, f := range p.Files() {
			ast.Inspect(f, func(n ast.Node) bool {
				if sel, ok := n.(*ast.SelectorExpr); ok {
					if fn, ok := p.ObjectOf(sel.Sel).(*types.Func); ok && fn.Pkg() != nil && fn.Pkg() != p.Pkg() {
						if sig, ok := fn.Type().(*types.Signature); ok && sig.Recv() == nil {
							key := path + "<-" + fn.FullName()
							if !crossSeen[key] {
								crossSeen[key] = true
								units = append(units, resUnit{p, fn})
							}
						}
					}
				}
				return true
			})
		}
	}
	return units
}

// ---- parent --------------------------------------------------------------------------------

// superviseResults runs the child over dir, restarting it after every unit that kills it.
func superviseResults(self, dir string, onlyLocal bool, emitUnit func(key resultsUnit, obs map[string]any)) (examined int, total int, err error) {
	scratch, err := core.ScratchDir("results-")
	if err != nil {
		return 0, 0, err
	}
	defer os.RemoveAll(scratch)
	skip := 0
	ol := "0"
	if onlyLocal {
		ol = "1"
	}
	for restart := 0; restart < 6; restart++ {
		outPath := filepath.Join(scratch, fmt.Sprintf("out-%d.txt", restart))
		cmd := exec.Command(self, "child", "results-run", dir, fmt.Sprint(skip), outPath, ol)
		var se bytes.Buffer
		cmd.Stderr = &se
		_ = cmd.Run()
		f, ferr := os.Open(outPath)
		if ferr != nil {
			return examined, total, fmt.Errorf("results child produced no output: %s", se.String())
		}
		sc := bufio.NewScanner(f)
		sc.Buffer(make([]byte, 1<<20), 1<<26)
		ended := false
		pendingIdx := -1
		var pendingKey resultsUnit
		timedOut := false
		type doneUnit struct {
			key resultsUnit
			obs map[string]any
		}
		var buffered []doneUnit
		bufIdx := map[int]int{}
		flush := func() {
			for _, d := range buffered {
				emitUnit(d.key, d.obs)
			}
			buffered = nil
		}
		for sc.Scan() {
			ln := sc.Text()
			switch {
			case strings.HasPrefix(ln, "N "):
				fmt.Sscan(ln[2:], &total)
			case strings.HasPrefix(ln, "S "):
				parts := strings.SplitN(ln, " ", 3)
				fmt.Sscan(parts[1], &pendingIdx)
				_ = json.Unmarshal([]byte(parts[2]), &pendingKey)
			case strings.HasPrefix(ln, "D "):
				parts := strings.SplitN(ln, " ", 3)
				var obs map[string]any
				if e := json.Unmarshal([]byte(parts[2]), &obs); e != nil {
					f.Close()
					return examined, total, e
				}
				obs["later_equal"] = true
				bufIdx[pendingIdx] = len(buffered)
				buffered = append(buffered, doneUnit{pendingKey, obs})
				examined++
				pendingIdx = -1
			case strings.HasPrefix(ln, "R "):
				var ri int
				fmt.Sscan(ln[2:], &ri)
				if bi, ok := bufIdx[ri]; ok {
					buffered[bi].obs["later_equal"] = false
				}
			case strings.HasPrefix(ln, "T "):
				timedOut = true
			case ln == "E":
				ended = true
			}
		}
		f.Close()
		flush()
		if ended {
			return examined, total, nil
		}
		if pendingIdx < 0 {
			return examined, total, fmt.Errorf("results child died outside a unit: %s", tail(se.String(), 600))
		}
		// the unit in progress killed the process: fatal error (stack overflow) or time budget
		emitUnit(pendingKey, map[string]any{"fatal": !timedOut, "timeout": timedOut, "panicked": false, "panic_msg": tail(firstLines(se.String(), 3), 300), "panic_site": "",
			"declared_n": 0, "n": 0, "lens": []int{}, "not_assignable": []string{}, "again_equal": false, "later_equal": true, "alts": [][]string{}, "alt_is_const": [][]bool{}})
		examined++
		skip = pendingIdx + 1
	}
	return examined, total, nil // restart budget exhausted: the rest stays unexamined (reported in evidence)
}

func tail(s string, n int) string {
	if len(s) > n {
		return s[:n]
	}
	return s
}

func firstLines(s string, n int) string {
	ls := strings.Split(s, "\n")
	if len(ls) > n {
		ls = ls[:n]
	}
	return strings.Join(ls, " | ")
}

func (resultsFam) ExecAll(cases []core.CaseIn, seed int64, emit func(c core.CaseIn, cas, conc, obs any)) error {
	self := os.Getenv("GVH_SELF")
	if self == "" {
		self, _ = os.Executable()
	}
	var synth []core.CaseIn
	var synthCases []resultsCase
	for _, c := range cases {
		var rc resultsCase
		if err := json.Unmarshal(c.Case, &rc); err != nil {
			return err
		}
		if rc.Kind == "corpus" {
			repo := os.Getenv("VERIF_REPO")
			if repo == "" {
				repo = "/repo"
			}
			examined, total, err := superviseResults(self, repo, false, func(key resultsUnit, obs map[string]any) {
				emit(c, map[string]any{"kind": "corpus", "shape": "-", "pkg": key.Pkg, "func": key.Name, "idx": 0}, map[string]any{"examined": 0}, obs)
			})
			if err != nil {
				return err
			}
			_ = examined // when the restart budget is exhausted the units that killed the child have been emitted (violations); the rest stays unexamined
			_ = total
			continue
		}
		synth = append(synth, c)
		synthCases = append(synthCases, rc)
	}
	const perMod = 150
	for i := 0; i < len(synth); i += perMod {
		dir, err := core.ScratchDir("results-mod-")
		if err != nil {
			return err
		}
		files := map[string]string{"go.mod": "module example.com/r\n\ngo 1.24\n",
			// sorted after every g<j>: nothing has been asked of them when the g packages are examined
			"x1/x1.go": "package x1\n\nimport \"example.com/r/x2\"\n\nfunc G() error { return x2.H() }\n",
			"x2/x2.go": "package x2\n\ntype Err struct{}\n\nfunc (*Err) Error() string { return \"e\" }\n\nfunc H() error { return &Err{} }\n"}
		idxOf := map[string]int{}
		for j := i; j < i+perMod && j < len(synth); j++ {
			src, err := programSource(fmt.Sprintf("g%d", j), synthCases[j].Shapes)
			if err != nil {
				return err
			}
			files[fmt.Sprintf("g%d/g.go", j)] = src
			idxOf[fmt.Sprintf("example.com/r/g%d", j)] = j
		}
		if err := core.WriteFiles(dir, files); err != nil {
			return err
		}
		_, _, err = superviseResults(self, dir, true, func(key resultsUnit, obs map[string]any) {
			j, ok := idxOf[key.Pkg]
			if !ok {
				return
			}
			// which shape does this function come from?  f<k> -> shapes[k-1]; helpers -> "-"
			shape := "-"
			name := key.Name[strings.LastIndex(key.Name, ".")+1:]
			var k int
			if _, e := fmt.Sscanf(name, "f%d", &k); e == nil && fmt.Sprintf("f%d", k) == name && k >= 1 && k <= len(synthCases[j].Shapes) {
				shape = synthCases[j].Shapes[k-1]
			}
			emit(synth[j], map[string]any{"kind": "synthetic", "shape": shape, "shapes": synthCases[j].Shapes, "pkg": key.Pkg, "func": key.Name, "idx": k}, map[string]any{}, obs)
		})
		os.RemoveAll(dir)
		if err != nil {
			return err
		}
	}
	return nil
}

func (resultsFam) Rand(n int, rng *rand.Rand, emit func(cas any)) error {
	emit(map[string]any{"kind": "corpus", "shapes": []string{}})
	return nil
}
