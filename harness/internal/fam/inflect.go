package fam

import (
	"bytes"
	"encoding/json"
	"fmt"
	"math/rand/v2"
	"os"
	"os/exec"
	"sort"
	"strings"
	"sync"
	"sync/atomic"
	"unicode"
	"unicode/utf8"

	"github.com/octohelm/gengo/pkg/inflector"

	"verif/harness/internal/core"
)

// inflect (C20): Pluralize / Singularize.
//
// seq  case: {"kind":"irregular"|"uninflected"|"random","dir","word","expect","style","prefix","boundary"} (random: "text": cps)
//
//	conc: {"input": cps, "lead": cps (prefix+boundary), "law": bool, "alone": cps}
//	obs : {"panicked","out","alone_out","again","table_ok"}
//
// conc case: {"kind":"conc","g":N,"keys":[strings],"reps":N}
//
//	obs : {"events":[{"ev","g","k","v"}], "reference":[[k,v]...], "race":bool, "crashed":bool}
type inflectFam struct{}

func init() {
	core.Register("inflect", inflectFam{})
	core.Children["inflect-conc"] = inflectConcChild
}

type inflectCase struct {
	Kind     string   `json:"kind"`
	Dir      string   `json:"dir"`
	Word     string   `json:"word"`
	Expect   string   `json:"expect"`
	Style    string   `json:"style"`
	Prefix   string   `json:"prefix"`
	Boundary string   `json:"boundary"`
	Text     []int    `json:"text"`
	G        int      `json:"g"`
	Keys     []string `json:"keys"`
	Reps     int      `json:"reps"`
}

func styled(w, style string) string {
	switch style {
	case "UPPER":
		return strings.ToUpper(w)
	case "Title":
		r, n := utf8.DecodeRuneInString(w)
		return string(unicode.ToUpper(r)) + w[n:]
	}
	return w
}

func inflectFn(dir string) func(string) string {
	if dir == "singular" {
		return inflector.Singularize
	}
	return inflector.Pluralize
}

func (inflectFam) Exec(c core.CaseIn, rng *rand.Rand, emit func(cas, conc, obs any)) error {
	var ic inflectCase
	if err := json.Unmarshal(c.Case, &ic); err != nil {
		return err
	}
	if ic.Kind == "conc" {
		return inflectConc(c, ic, rng, emit)
	}
	fn := inflectFn(ic.Dir)
	var input, alone, lead string
	law := false
	if ic.Kind == "random" {
		input = core.FromCPs(ic.Text)
		alone = input
	} else {
		alone = styled(ic.Word, ic.Style)
		lead = strings.NewReplacer("<NL>", "first line\nthe", "<IDOT>", "\u0130stanbul", "<KELVIN>", "\u212a", "<ASTROKE>", "\u023a\u023a\u023a\u023a", "<BADUTF8>", "\xff\xfe").Replace(ic.Prefix) + ic.Boundary
		input = lead + alone
		law = ic.Kind == "irregular" && ic.Boundary != ""
	}
	var out, out2, aloneOut string
	// history: an answer is asked again as a question; the same question put in a context that was never an answer
	histOut, freshOut, histOK := "", "", false
	p := core.Try(func() {
		out = fn(input)
		out2 = fn(input)
		aloneOut = fn(alone)
		if ic.Kind != "random" {
			u1, u2 := fmt.Sprintf("ha%d ", c.ID), fmt.Sprintf("hb%d ", c.ID)
			r1 := fn(u1 + alone)
			if w1, ok := strings.CutPrefix(r1, u1); ok {
				r2 := fn(r1)      // r1 has been an OUTPUT of this process before it is an input
				r3 := fn(u2 + w1) // the same word, in a string the process has never seen
				h, ok1 := strings.CutPrefix(r2, u1)
				f, ok2 := strings.CutPrefix(r3, u2)
				histOut, freshOut, histOK = h, f, ok1 && ok2
			}
		}
	})
	obs := map[string]any{"panicked": p.Panicked, "panic_msg": p.Msg, "panic_site": p.Site, "out": core.CPs(out),
		"alone_out": core.CPs(aloneOut), "again": out == out2, "hist_judged": histOK, "hist_out": core.CPs(histOut), "fresh_out": core.CPs(freshOut),
		"table_ok": ic.Kind == "random" || ic.Style != "lower" || aloneOut == ic.Expect}
	emit(nil, map[string]any{"input": core.CPs(input), "lead": core.CPs(lead), "law": law, "alone": core.CPs(alone), "text": input}, obs)
	return nil
}

// ---- concurrent rounds -------------------------------------------------------------------

type inflectEvent struct {
	Seq int64  `json:"-"`
	Ev  string `json:"ev"`
	G   int    `json:"g"`
	K   string `json:"k"`
	V   string `json:"v"`
}

// child: gvh child inflect-conc <g> <reps> <seed> <key>...   prints {"events":[...]} ; g == 1 gives the sequential reference
func inflectConcChild(args []string) error {
	if len(args) < 4 {
		return fmt.Errorf("usage: inflect-conc g reps seed keys...")
	}
	var g, reps int
	var seed int64
	fmt.Sscan(args[0], &g)
	fmt.Sscan(args[1], &reps)
	fmt.Sscan(args[2], &seed)
	keys := args[3:]
	var ctr atomic.Int64
	per := make([][]inflectEvent, g)
	start := make(chan struct{})
	var wg sync.WaitGroup
	for gi := 0; gi < g; gi++ {
		wg.Add(1)
		go func(gi int) {
			defer wg.Done()
			rng := core.RNG(seed, uint64(gi)+1)
			order := make([]string, 0, len(keys)*reps)
			for r := 0; r < reps; r++ {
				ks := append([]string{}, keys...)
				if gi%2 == 1 || r > 0 { // even goroutines hit the keys in the same order first: maximal contention on a cold cache
					rng.Shuffle(len(ks), func(i, j int) { ks[i], ks[j] = ks[j], ks[i] })
				}
				order = append(order, ks...)
			}
			evs := make([]inflectEvent, 0, 2*len(order))
			<-start
			for _, k := range order {
				dir, word, _ := strings.Cut(k, ":")
				fn := inflectFn(dir)
				s := ctr.Add(1)
				evs = append(evs, inflectEvent{Seq: s, Ev: "call", G: gi, K: k})
				v := fn(word)
				s = ctr.Add(1)
				evs = append(evs, inflectEvent{Seq: s, Ev: "ret", G: gi, K: k, V: v})
			}
			per[gi] = evs
		}(gi)
	}
	close(start)
	wg.Wait()
	if reps >= 10 {
		// heavy round: too many events to log one by one - report, per key, every distinct value any caller got
		seen := map[string]map[string]int{}
		for _, evs := range per {
			for _, e := range evs {
				if e.Ev == "ret" {
					if seen[e.K] == nil {
						seen[e.K] = map[string]int{}
					}
					seen[e.K][e.V]++
				}
			}
		}
		sum := []inflectEvent{}
		for _, k := range SortedKeysOf(seen) {
			for _, v := range SortedKeysOf(seen[k]) {
				sum = append(sum, inflectEvent{Ev: "ret", G: seen[k][v], K: k, V: v})
			}
		}
		return json.NewEncoder(os.Stdout).Encode(map[string]any{"events": []inflectEvent{}, "summary": sum})
	}
	all := []inflectEvent{}
	for _, e := range per {
		all = append(all, e...)
	}
	sort.Slice(all, func(i, j int) bool { return all[i].Seq < all[j].Seq })
	return json.NewEncoder(os.Stdout).Encode(map[string]any{"events": all})
}

// SortedKeysOf returns the sorted keys of a string-keyed map.
func SortedKeysOf[V any](m map[string]V) []string {
	ks := make([]string, 0, len(m))
	for k := range m {
		ks = append(ks, k)
	}
	sort.Strings(ks)
	return ks
}

func inflectConc(c core.CaseIn, ic inflectCase, rng *rand.Rand, emit func(cas, conc, obs any)) error {
	raceBin := os.Getenv("GVH_RACE")
	if raceBin == "" {
		return fmt.Errorf("GVH_RACE not set")
	}
	var summary []inflectEvent
	run := func(bin string, g, reps int) (events []inflectEvent, stderr string, err error) {
		args := append([]string{"child", "inflect-conc", fmt.Sprint(g), fmt.Sprint(reps), fmt.Sprint(rng.Int64())}, ic.Keys...)
		cmd := exec.Command(bin, args...)
		var so, se bytes.Buffer
		cmd.Stdout, cmd.Stderr = &so, &se
		cmd.Env = append(os.Environ(), "GORACE=halt_on_error=0")
		err = cmd.Run()
		var out struct {
			Events  []inflectEvent `json:"events"`
			Summary []inflectEvent `json:"summary"`
		}
		if e := json.Unmarshal(so.Bytes(), &out); e != nil && err == nil {
			err = e
		}
		summary = out.Summary
		return out.Events, se.String(), err
	}
	evs, stderr, err := run(raceBin, ic.G, ic.Reps)
	heavy := summary
	race := strings.Contains(stderr, "DATA RACE")
	crashed := err != nil && !race
	ref, _, rerr := run(raceBin, 1, 1)
	if rerr != nil && !crashed {
		// the sequential reference itself died: report as a crash of the unit (panic in inflection)
		crashed = true
	}
	reference := [][]string{}
	for _, e := range ref {
		if e.Ev == "ret" {
			reference = append(reference, []string{e.K, e.V})
		}
	}
	if evs == nil {
		evs = []inflectEvent{}
	}
	tail := stderr
	if len(tail) > 600 {
		tail = tail[:600]
	}
	if heavy == nil {
		heavy = []inflectEvent{}
	}
	// the heavy summary is judged like events: every (key, value) a caller got must be the reference's
	for _, e := range heavy {
		evs = append(evs, inflectEvent{Ev: "call", G: 1000 + len(evs), K: e.K}, inflectEvent{Ev: "ret", G: 1000 + len(evs), K: e.K, V: e.V})
	}
	emit(nil, map[string]any{"law": false}, map[string]any{"events": evs, "reference": reference, "race": race, "crashed": crashed, "stderr": tail})
	return nil
}

func (inflectFam) Rand(n int, rng *rand.Rand, emit func(cas any)) error {
	fixed := []string{"", " ", "perſon", "old perſon", "ſex", "the ſexes", "cooKie", "Kelvin", "PERſON", "straße", "İstanbul", "ǅ", "a\x00b",
		"person ", "-", "old-", "ox", "the ox", "oxen", "my-feet", "feet", "quiz", "STATUS", "Émile-man", "世界", "世界 person", "news", "sea bass", "\xff\xfe"}
	for _, dir := range []string{"plural", "singular"} {
		for _, s := range fixed {
			emit(map[string]any{"kind": "random", "dir": dir, "text": core.CPs(s)})
		}
	}
	words := []string{"person", "people", "ox", "child", "men", "foot", "status", "bus", "fish", "quiz", "matrix", "wolf", "day", "city"}
	for i := 0; i < n; i++ {
		var b strings.Builder
		switch rng.IntN(3) {
		case 0:
			ln := rng.IntN(12)
			for j := 0; j < ln; j++ {
				var r rune
				for {
					r = rune(rng.IntN(0x250))
					if rng.IntN(6) == 0 {
						r = rune(rng.IntN(0x110000))
					}
					if utf8.ValidRune(r) {
						break
					}
				}
				b.WriteRune(r)
			}
		default:
			k := 1 + rng.IntN(3)
			for j := 0; j < k; j++ {
				w := words[rng.IntN(len(words))]
				// sprinkle case-fold specials
				rs := []rune(w)
				for x := range rs {
					switch {
					case rng.IntN(9) == 0:
						rs[x] = unicode.ToUpper(rs[x])
					case rs[x] == 's' && rng.IntN(6) == 0:
						rs[x] = 'ſ'
					case rs[x] == 'k' && rng.IntN(4) == 0:
						rs[x] = 'K'
					}
				}
				b.WriteString(string(rs))
				if j < k-1 {
					b.WriteString([]string{" ", "-", "_", ".", "", "/"}[rng.IntN(6)])
				}
			}
		}
		emit(map[string]any{"kind": "random", "dir": []string{"plural", "singular"}[rng.IntN(2)], "text": core.CPs(b.String())})
	}
	// concurrent rounds on a cold cache
	rounds := n / 150
	if rounds < 4 {
		rounds = 4
	}
	for i := 0; i < max(2, rounds/3); i++ {
		// heavy rounds: 16 goroutines, 40 distinct prefixed irregular words, 12 repetitions - different inputs in flight all the time
		keys := []string{}
		irr := []string{"person", "tooth", "foot", "ox", "child", "man", "goose", "hero", "potato", "move"}
		for j := 0; j < 40; j++ {
			keys = append(keys, []string{"plural", "singular"}[j%2]+":"+fmt.Sprintf("p%d%s%s", j, []string{".", "-", " ", "/"}[j%4], irr[rng.IntN(len(irr))]))
		}
		emit(map[string]any{"kind": "conc", "g": 16, "keys": keys, "reps": 12})
	}
	for i := 0; i < rounds; i++ {
		keys := []string{}
		nk := 2 + rng.IntN(4)
		for j := 0; j < nk; j++ {
			keys = append(keys, []string{"plural", "singular"}[rng.IntN(2)]+":"+words[rng.IntN(len(words))])
		}
		emit(map[string]any{"kind": "conc", "g": 4 + rng.IntN(5), "keys": keys, "reps": 2})
	}
	return nil
}
