package fam

import (
	"bytes"
	"encoding/json"
	"fmt"
	"os"
	"os/exec"
	"path/filepath"
	"regexp"
	"strings"

	"verif/harness/internal/pipe"
)

// Shared by the generated-code families (C16 C17 C18): run gengo's real sample generators over a materialised module in a
// fresh process, compile the result together with a probe program, run it.

func gvhSelf() string {
	if s := os.Getenv("GVH_SELF"); s != "" {
		return s
	}
	s, _ := os.Executable()
	return s
}

// runGenerators executes gengo with the named registered generators over patterns, from the module root.
func runGenerators(root, scratch, tag string, gens []string, patterns []string, all bool) (pipe.RunResult, error) {
	spec := pipe.RunSpec{Dir: root, Layout: "siblings", Patterns: patterns, All: all, Plan: map[string]string{},
		Log: filepath.Join(scratch, "calls-"+tag+".ndjson"), Result: filepath.Join(scratch, "result-"+tag+".json")}
	for _, g := range gens {
		spec.Gens = append(spec.Gens, pipe.GenSpec{Name: g})
	}
	b, _ := json.Marshal(spec)
	sp := filepath.Join(scratch, "spec-"+tag+".json")
	if err := os.WriteFile(sp, b, 0o644); err != nil {
		return pipe.RunResult{}, err
	}
	cmd := exec.Command(gvhSelf(), "child", "pipeline-run", sp)
	var se bytes.Buffer
	cmd.Stderr = &se
	err := cmd.Run()
	var res pipe.RunResult
	data, rerr := os.ReadFile(spec.Result)
	if rerr != nil {
		// the child died: an unrecovered panic inside the generator
		msg := se.String()
		if i := strings.Index(msg, "panic:"); i >= 0 {
			msg = msg[i:]
		}
		if len(msg) > 500 {
			msg = msg[:500]
		}
		if err != nil && msg != "" {
			return pipe.RunResult{Panic: msg}, nil
		}
		return res, fmt.Errorf("generator child: %v: %s", err, se.String())
	}
	return res, json.Unmarshal(data, &res)
}

var compileLine = regexp.MustCompile(`^(?:\./)?([^:\s]+):\d+(?::\d+)?: (.*)$`)

// goBuild compiles ./... in root and returns the error lines grouped by top-level directory.
func goBuild(root string) (map[string][]string, string) {
	cmd := exec.Command("go", "build", "./...")
	cmd.Dir = root
	cmd.Env = append(os.Environ(), "GOFLAGS=-mod=mod")
	out, _ := cmd.CombinedOutput()
	res := map[string][]string{}
	for _, ln := range strings.Split(string(out), "\n") {
		if m := compileLine.FindStringSubmatch(ln); m != nil {
			dir := m[1]
			if i := strings.Index(dir, "/"); i >= 0 {
				dir = dir[:i]
			}
			res[dir] = append(res[dir], m[1]+": "+m[2])
		}
	}
	return res, string(out)
}

// goRun runs the package pkg (e.g. ./cmd/probe) in root and returns its stdout.
func goRun(root, pkg string) ([]byte, string, error) {
	cmd := exec.Command("go", "run", pkg)
	cmd.Dir = root
	cmd.Env = append(os.Environ(), "GOFLAGS=-mod=mod")
	var so, se bytes.Buffer
	cmd.Stdout, cmd.Stderr = &so, &se
	err := cmd.Run()
	return so.Bytes(), se.String(), err
}
