package fam

import (
	"bytes"
	"encoding/json"
	"fmt"
	"math/rand/v2"
	"os"
	"os/exec"
	"path/filepath"
	"regexp"
	"runtime"
	"slices"
	"sort"
	"strings"
	"sync"

	"github.com/octohelm/gengo/pkg/sumfile"

	"verif/harness/internal/core"
	"verif/harness/internal/pipe"
)

// pipeline (C02 C04 C05 C07 C08): histories of environment actions and runs on a materialised module.
// Every run executes in a fresh child process (gvh child pipeline-run).
//
// case: {"layout", "beh":[[pkg,gen,beh]...], "newer":bool, "stateful":bool, "steps":[step...]}
// one trace line per step; the first line of a history has case.k = 1 and reset = true.
type pipelineFam struct{}

func init() {
	core.Register("pipeline", pipelineFam{})
	core.Children["pipeline-run"] = pipe.RunChild
}

type pipeFault struct {
	Kind string `json:"kind"` // none | err | badsyntax | die | panic
	Pkg  string `json:"pkg"`
	Gen  string `json:"gen"`
	At   string `json:"at"` // T1 | T2 | defer
}

type pipeStep struct {
	Op    string    `json:"op"` // run | edit | adduser | deluser | delout | delsum | corruptsum
	All   bool      `json:"all"`
	Force bool      `json:"force"`
	Entry []string  `json:"entry"`
	Gens  []string  `json:"gens"`
	Fault pipeFault `json:"fault"`
	From  string    `json:"from"` // run: package whose directory gengo is started in ("" = module root)
	Pkg   string    `json:"pkg"`
	File  string    `json:"file"`
	Gen   string    `json:"gen"`
	Kind  string    `json:"kind"`
}

type pipeCase struct {
	Layout   string     `json:"layout"`
	Beh      [][]string `json:"beh"`
	Newer    bool       `json:"newer"`
	Stateful bool       `json:"stateful"`
	Variant  string     `json:"variant"`
	Steps    []pipeStep `json:"steps"`
}

func (pipelineFam) Exec(c core.CaseIn, rng *rand.Rand, emit func(cas, conc, obs any)) error {
	return fmt.Errorf("pipeline is a batch family")
}

// behaviour name of a (pkg, gen) -> planned behaviour of the T1 and T2 calls
func behPlan(b string) (string, string) {
	switch b {
	case "", "render":
		return "render_defer", "render"
	case "nothing":
		return "nothing", "nothing"
	case "skip":
		return "skip", "skip_wrapped"
	case "ignore":
		return "ignore", "nothing"
	case "ignore_render":
		return "ignore_wrapped", "render"
	case "mixed":
		return "render", "skip"
	case "ignore_alias": // nothing for the named types; ErrIgnore comes from GenerateAliasType (see runStep)
		return "nothing", "nothing"
	case "blank": // white space only
		return "blank", "nothing"
	case "defer_only": // nothing from GenerateType, something from the deferred callback
		return "nothing_defer", "nothing"
	}
	return "render", "render"
}

type pkgProj struct {
	In  string `json:"in"`  // digest of the non-output files of the package directory
	Out string `json:"out"` // digest of its <base>.* files
	H   string `json:"h"`   // dirhash.Hash1 of the directory, computed by the harness
	Sum string `json:"sum"` // hash recorded for it in gengo.sum ("" = none)
}

type outFile struct {
	Pkg     string `json:"pkg"`
	Gen     string `json:"gen"`
	Digest  string `json:"digest"`
	Planted bool   `json:"planted"`
}

type change struct {
	Path    string `json:"path"`
	Pkg     string `json:"pkg"`
	Base    string `json:"base"`
	BaseDot bool   `json:"base_dot"`
	IsSum   bool   `json:"is_sum"`
	How     string `json:"how"` // created | modified | deleted
}

type treeProj struct {
	Pkgs          map[string]pkgProj `json:"pkgs"`
	Outs          []outFile          `json:"outs"`
	SumPresent    bool               `json:"sum_present"`
	SumDigest     string             `json:"sum_digest"`
	SumLines      [][]string         `json:"sum_lines"`      // raw "path hash" lines as written, in file order
	SumRead       [][]string         `json:"sum_read"`       // what sumfile.Load returns (sorted by path)
	SumWellFormed bool               `json:"sum_wellformed"` // every line is exactly "path hash\n"
	files         map[string]pipe.FileInfo
}

func project(root, layout string) (treeProj, error) {
	snap, err := pipe.Snapshot(root, layout)
	if err != nil {
		return treeProj{}, err
	}
	hs, err := pipe.DirHashes(root, layout)
	if err != nil {
		return treeProj{}, err
	}
	tp := treeProj{Pkgs: map[string]pkgProj{}, Outs: []outFile{}, SumLines: [][]string{}, SumRead: [][]string{}, files: snap}
	recorded := map[string]string{}
	if data, err := os.ReadFile(filepath.Join(root, "gengo.sum")); err == nil {
		tp.SumPresent = true
		tp.SumDigest = snap["gengo.sum"].Digest
		tp.SumWellFormed = len(data) == 0 || data[len(data)-1] == '\n'
		for _, ln := range strings.Split(strings.TrimSuffix(string(data), "\n"), "\n") {
			if len(data) == 0 {
				break
			}
			parts := strings.Split(ln, " ")
			if len(parts) != 2 || parts[0] == "" || parts[1] == "" {
				tp.SumWellFormed = false
			}
			tp.SumLines = append(tp.SumLines, []string{pipe.PkgOfPath(layout, parts[0]), parts[len(parts)-1], parts[0]})
		}
		if sf, err := sumfile.Load(root); err == nil {
			for _, k := range core.SortedKeys(sf.Data) {
				tp.SumRead = append(tp.SumRead, []string{pipe.PkgOfPath(layout, k), sf.Data[k], k})
				recorded[pipe.PkgOfPath(layout, k)] = sf.Data[k]
			}
		}
	} else {
		tp.SumDigest = "absent"
	}
	for pkg := range pipe.Layouts[layout] {
		tp.Pkgs[pkg] = pkgProj{In: pipe.InputDigest(snap, pkg), Out: pipe.OutputDigest(snap, pkg), H: hs[pkg], Sum: recorded[pkg]}
	}
	rels := make([]string, 0, len(snap))
	for rel := range snap {
		rels = append(rels, rel)
	}
	sort.Strings(rels)
	for _, rel := range rels {
		fi := snap[rel]
		if fi.Pkg != "" && fi.Gen != "" {
			tp.Outs = append(tp.Outs, outFile{Pkg: fi.Pkg, Gen: fi.Gen, Digest: fi.Digest, Planted: fi.Planted})
		}
	}
	return tp, nil
}

func diff(pre, post map[string]pipe.FileInfo) []change {
	res := []change{}
	seen := map[string]bool{}
	for rel, a := range pre {
		seen[rel] = true
		b, ok := post[rel]
		if !ok {
			res = append(res, change{Path: rel, Pkg: a.Pkg, Base: a.Base, BaseDot: a.BaseDot, IsSum: rel == "gengo.sum", How: "deleted"})
		} else if a.Digest != b.Digest {
			res = append(res, change{Path: rel, Pkg: a.Pkg, Base: a.Base, BaseDot: a.BaseDot, IsSum: rel == "gengo.sum", How: "modified"})
		}
	}
	for rel, b := range post {
		if !seen[rel] {
			res = append(res, change{Path: rel, Pkg: b.Pkg, Base: b.Base, BaseDot: b.BaseDot, IsSum: rel == "gengo.sum", How: "created"})
		}
	}
	sort.Slice(res, func(i, j int) bool { return res[i].Path < res[j].Path })
	return res
}

var posRe = regexp.MustCompile(`^(\S+?):(\d+):(\d+)`)

type callObs struct {
	Kind    string `json:"kind"`
	Pkg     string `json:"pkg"`
	Gen     string `json:"gen"`
	Type    string `json:"type"`
	SumSame bool   `json:"sum_same"` // gengo.sum at callback time is byte-identical to the start of the run
	OwnSame bool   `json:"own_same"` // this generator's file for this package is still what it was at the start of the run
	ObjKind string `json:"obj_kind"`
}

func runStep(self, root, layout string, pc pipeCase, st pipeStep, scratch string, n int, warm map[string]string) (map[string]any, error) {
	pre, err := project(root, layout)
	if err != nil {
		return nil, err
	}
	plan := map[string]string{}
	for pkg := range pipe.Layouts[layout] {
		for _, g := range st.Gens {
			t1, t2 := behPlan("render")
			plan[pipe.PkgPath(layout, pkg)+"|"+g+"|T1"] = t1
			plan[pipe.PkgPath(layout, pkg)+"|"+g+"|T2"] = t2
		}
	}
	for _, b := range pc.Beh {
		if len(b) != 3 {
			return nil, fmt.Errorf("bad beh entry %v", b)
		}
		t1, t2 := behPlan(b[2])
		plan[pipe.PkgPath(layout, b[0])+"|"+b[1]+"|T1"] = t1
		plan[pipe.PkgPath(layout, b[0])+"|"+b[1]+"|T2"] = t2
	}
	// the alias A1 of the "alias" variant: nothing is rendered for it; behaviour ignore_alias signals ErrIgnore from GenerateAliasType
	for k := range plan {
		if strings.HasSuffix(k, "|T1") {
			plan[strings.TrimSuffix(k, "|T1")+"|A1"] = "nothing"
		}
	}
	for _, b := range pc.Beh {
		if b[2] == "ignore_alias" {
			plan[pipe.PkgPath(layout, b[0])+"|"+b[1]+"|A1"] = "ignore"
		}
	}
	// the lower-case twins of the shadow variant behave like T2
	for k, v := range plan {
		if strings.HasSuffix(k, "|T2") {
			plan[strings.TrimSuffix(k, "|T2")+"|t1"] = v
			plan[strings.TrimSuffix(k, "|T2")+"|t2"] = v
			for i := 1; i <= 30; i++ {
				plan[strings.TrimSuffix(k, "|T2")+fmt.Sprintf("|U%02d", i)] = v
			}
		}
	}
	if st.Fault.Kind != "" && st.Fault.Kind != "none" {
		pp := pipe.PkgPath(layout, st.Fault.Pkg)
		switch st.Fault.At {
		case "nested":
			if st.Fault.Kind != "err" {
				return nil, fmt.Errorf("fault %s at nested defer unsupported", st.Fault.Kind)
			}
			plan[pp+"|"+st.Fault.Gen+"|T1"] = "render_defer_nested_err"
		case "qdefer": // the deferred callback of a generator that has rendered nothing for the package
			if st.Fault.Kind != "err" {
				return nil, fmt.Errorf("fault %s at quiet defer unsupported", st.Fault.Kind)
			}
			for k := range plan {
				if strings.HasPrefix(k, pp+"|"+st.Fault.Gen+"|") {
					plan[k] = "nothing"
				}
			}
			plan[pp+"|"+st.Fault.Gen+"|T1"] = "nothing_defer_err"
		case "defer":
			switch st.Fault.Kind {
			case "err":
				plan[pp+"|"+st.Fault.Gen+"|T1"] = "render_defer_err"
			case "die":
				plan[pp+"|"+st.Fault.Gen+"|T1"] = "render_defer_die"
			case "panic":
				plan[pp+"|"+st.Fault.Gen+"|T1"] = "render_defer_panic"
			default:
				return nil, fmt.Errorf("fault %s at defer unsupported", st.Fault.Kind)
			}
		default:
			plan[pp+"|"+st.Fault.Gen+"|"+st.Fault.At] = st.Fault.Kind
		}
	}
	// the caller's Globals are never empty; every package's doc carries a tag of its own (+only:<pkg>=1): what a type's
	// output shows of the effective tags must be its package's, whatever was generated before it in the same process
	spec := pipe.RunSpec{Dir: root, Layout: layout, All: st.All, Force: st.Force, Entry: st.Entry, From: st.From, Plan: plan, Globals: map[string][]string{"verif:global": {"1"}},
		Log: filepath.Join(scratch, fmt.Sprintf("calls-%d.ndjson", n)), Result: filepath.Join(scratch, fmt.Sprintf("result-%d.json", n))}
	for _, g := range st.Gens {
		spec.Gens = append(spec.Gens, pipe.GenSpec{Name: g, Newer: pc.Newer, Stateful: pc.Stateful})
	}
	for _, path := range core.SortedKeys(warm) {
		spec.Warm = append(spec.Warm, pipe.WarmFile{Path: path, Old: warm[path]})
	}
	specPath := filepath.Join(scratch, fmt.Sprintf("spec-%d.json", n))
	b, _ := json.Marshal(spec)
	if err := os.WriteFile(specPath, b, 0o644); err != nil {
		return nil, err
	}
	cmd := exec.Command(self, "child", "pipeline-run", specPath)
	var se bytes.Buffer
	cmd.Stderr = &se
	runErr := cmd.Run()
	exit := 0
	if runErr != nil {
		if ee, ok := runErr.(*exec.ExitError); ok {
			exit = ee.ExitCode()
		} else {
			return nil, runErr
		}
	}
	var res pipe.RunResult
	died := false
	if data, err := os.ReadFile(spec.Result); err == nil {
		_ = json.Unmarshal(data, &res)
	} else {
		died = true
	}
	if exit == 2 && strings.Contains(se.String(), "panic:") {
		// an unrecovered panic killed the run
		msg := se.String()
		if i := strings.Index(msg, "panic:"); i >= 0 {
			msg = msg[i:]
		}
		if j := strings.Index(msg, "\n"); j >= 0 {
			msg = msg[:j]
		}
		res.Panic = msg
	} else if exit != 0 && exit != 7 {
		return nil, fmt.Errorf("run child failed unexpectedly (exit %d): %s", exit, se.String())
	}
	calls := []callObs{}
	if data, err := os.ReadFile(spec.Log); err == nil {
		for _, ln := range strings.Split(strings.TrimSpace(string(data)), "\n") {
			if ln == "" {
				continue
			}
			var c pipe.Call
			if err := json.Unmarshal([]byte(ln), &c); err != nil {
				return nil, err
			}
			pkg := pipe.PkgOfPath(layout, c.Pkg)
			own := "absent"
			for _, o := range pre.Outs {
				if o.Pkg == pkg && o.Gen == c.Gen {
					own = o.Digest
				}
			}
			calls = append(calls, callObs{Kind: c.Kind, Pkg: pkg, Gen: c.Gen, Type: c.Type, SumSame: c.SumNow == pre.SumDigest, OwnSame: c.OwnNow == own, ObjKind: c.ObjKind})
		}
	}
	post, err := project(root, layout)
	if err != nil {
		return nil, err
	}
	obs := map[string]any{"exit": exit, "died": died, "load_err": res.LoadErr, "err": res.Err, "panic": res.Panic, "failed": res.Err != "" || res.LoadErr != "",
		"calls": calls, "pre": pre, "post": post, "changes": diff(pre.files, post.files)}
	// independent string facts about the error text (C02)
	f := st.Fault
	if f.Kind != "" && f.Kind != "none" {
		obs["err_has_gen"] = strings.Contains(res.Err, "`"+f.Gen+"`") || strings.Contains(res.Err, f.Gen)
		obs["err_has_pkg"] = strings.Contains(res.Err, pipe.PkgPath(layout, f.Pkg))
		culprit := filepath.Join(root, pipe.Layouts[layout][f.Pkg], pipe.Base+"."+f.Gen+".go")
		m := posRe.FindStringSubmatch(res.Err)
		obs["err_pos_in_culprit"] = m != nil && m[1] == culprit
	} else {
		obs["err_has_gen"], obs["err_has_pkg"], obs["err_pos_in_culprit"] = false, false, false
	}
	return obs, nil
}

func envStep(root, layout, variant string, st pipeStep, version int, warm map[string]string) error {
	pdir := func(pkg string) string { return filepath.Join(root, pipe.Layouts[layout][pkg]) }
	switch st.Op {
	case "edit":
		// the edit keeps the file's size class and its modification time (restore from a backup, rsync -t, cp -p): nothing but the
		// content may tell gengo that the file changed. The earlier content is remembered for the next run's preliminary load.
		path := filepath.Join(pdir(st.Pkg), "types.go")
		old, oerr := os.ReadFile(path)
		fi, serr := os.Stat(path)
		nw := []byte(pipe.SrcFile(st.Pkg, version, pipe.Imports[st.Pkg], layout, variant))
		if err := os.WriteFile(path, nw, 0o644); err != nil {
			return err
		}
		if oerr == nil && serr == nil && len(old) == len(nw) {
			if err := os.Chtimes(path, fi.ModTime(), fi.ModTime()); err != nil {
				return err
			}
			if warm != nil {
				if _, seen := warm[path]; !seen {
					warm[path] = string(old)
				}
			}
		}
		return nil
	case "adduser":
		if strings.HasPrefix(st.File, ".#") {
			// an editor's lock file: a symbolic link that points nowhere - the directory can be listed but not hashed
			_ = os.Remove(filepath.Join(pdir(st.Pkg), st.File))
			return os.Symlink(fmt.Sprintf("nobody@nowhere.%d", version), filepath.Join(pdir(st.Pkg), st.File))
		}
		if err := os.MkdirAll(filepath.Dir(filepath.Join(pdir(st.Pkg), st.File)), 0o755); err != nil {
			return err
		}
		return os.WriteFile(filepath.Join(pdir(st.Pkg), st.File), []byte(pipe.UserFileContent(st.Pkg, st.File, version)), 0o644)
	case "deluser":
		err := os.Remove(filepath.Join(pdir(st.Pkg), st.File))
		if os.IsNotExist(err) {
			return nil
		}
		return err
	case "delout":
		err := os.Remove(filepath.Join(pdir(st.Pkg), pipe.Base+"."+st.Gen+".go"))
		if os.IsNotExist(err) {
			return nil
		}
		return err
	case "delsum":
		err := os.Remove(filepath.Join(root, "gengo.sum"))
		if os.IsNotExist(err) {
			return nil
		}
		return err
	case "corruptsum":
		p := filepath.Join(root, "gengo.sum")
		data, err := os.ReadFile(p)
		if err != nil {
			if st.Kind == "garbage" {
				return os.WriteFile(p, []byte("this is not a sum file\n\x00\x01\n"), 0o644)
			}
			return nil
		}
		lines := strings.SplitAfter(string(data), "\n")
		switch st.Kind {
		case "drop": // drop the first line
			if len(lines) > 0 {
				lines = lines[1:]
			}
			return os.WriteFile(p, []byte(strings.Join(lines, "")), 0o644)
		case "wrong": // wrong hash on the first line
			if len(lines) > 0 && strings.Contains(lines[0], " ") {
				lines[0] = strings.SplitN(lines[0], " ", 2)[0] + " h1:AAAAAAAAAAAAAAAAAAAAAAAAAAAAAAAAAAAAAAAAAAA=\n"
			}
			return os.WriteFile(p, []byte(strings.Join(lines, "")), 0o644)
		case "garbage":
			return os.WriteFile(p, []byte("this is not a sum file\n\x00\x01\n"), 0o644)
		case "truncate":
			return os.WriteFile(p, data[:len(data)/2], 0o644)
		case "shuffle": // every entry kept, lines in reverse order
			ls := strings.Split(strings.TrimSuffix(string(data), "\n"), "\n")
			slices.Reverse(ls)
			return os.WriteFile(p, []byte(strings.Join(ls, "\n")+"\n"), 0o644)
		case "noise": // every entry kept: a duplicated line, a one-token junk line, an extra field, no final newline
			if len(lines) > 0 && strings.HasSuffix(lines[0], "\n") {
				first := lines[0]
				lines[0] = strings.TrimSuffix(first, "\n") + " extra\n"
				lines = append(lines, "=======\n", strings.TrimSuffix(first, "\n"))
			}
			return os.WriteFile(p, []byte(strings.Join(lines, "")), 0o644)
		}
		return fmt.Errorf("unknown corruption %q", st.Kind)
	}
	return fmt.Errorf("unknown env op %q", st.Op)
}

func (pipelineFam) ExecAll(cases []core.CaseIn, seed int64, emit func(c core.CaseIn, cas, conc, obs any)) error {
	self := os.Getenv("GVH_SELF")
	if self == "" {
		var err error
		if self, err = os.Executable(); err != nil {
			return err
		}
	}
	type line struct {
		cas, conc, obs any
	}
	results := make([][]line, len(cases))
	errs := make([]error, len(cases))
	var wg sync.WaitGroup
	sem := make(chan struct{}, max(2, runtime.NumCPU()-2))
	for i := range cases {
		wg.Add(1)
		sem <- struct{}{}
		go func(i int) {
			defer wg.Done()
			defer func() { <-sem }()
			var pc pipeCase
			if err := json.Unmarshal(cases[i].Case, &pc); err != nil {
				errs[i] = err
				return
			}
			scratch, err := core.ScratchDir("pipe-")
			if err != nil {
				errs[i] = err
				return
			}
			defer os.RemoveAll(scratch)
			root := filepath.Join(scratch, "m")
			if err := pipe.Materialise(root, pc.Layout, "", pc.Variant); err != nil {
				errs[i] = err
				return
			}
			if pc.Beh == nil {
				pc.Beh = [][]string{}
			}
			warm := map[string]string{} // files edited since the last run -> their earlier content
			for k, st := range pc.Steps {
				if st.Entry == nil {
					st.Entry = []string{}
				}
				if st.Gens == nil {
					st.Gens = []string{}
				}
				if st.Fault.Kind == "" {
					st.Fault.Kind = "none"
				}
				cas := map[string]any{"hist": cases[i].ID, "k": k + 1, "reset": k == 0, "layout": pc.Layout, "beh": pc.Beh, "newer": pc.Newer,
					"stateful": pc.Stateful, "variant": pc.Variant, "step": st, "nsteps": len(pc.Steps)}
				if st.Op == "run" {
					obs, err := runStep(self, root, pc.Layout, pc, st, scratch, k, warm)
					for p := range warm {
						delete(warm, p)
					}
					if err != nil {
						errs[i] = fmt.Errorf("history %d step %d: %w", cases[i].ID, k+1, err)
						return
					}
					results[i] = append(results[i], line{cas, map[string]any{}, obs})
				} else {
					if err := envStep(root, pc.Layout, pc.Variant, st, k+1, warm); err != nil {
						errs[i] = fmt.Errorf("history %d step %d: %w", cases[i].ID, k+1, err)
						return
					}
					results[i] = append(results[i], line{cas, map[string]any{}, map[string]any{"env": true}})
				}
			}
		}(i)
	}
	wg.Wait()
	for i := range cases {
		if errs[i] != nil {
			return errs[i]
		}
		for _, l := range results[i] {
			emit(cases[i], l.cas, l.conc, l.obs)
		}
	}
	return nil
}

func (pipelineFam) Rand(n int, rng *rand.Rand, emit func(cas any)) error {
	layouts := []string{"siblings", "nested", "root"}
	behs := []string{"render", "nothing", "skip", "ignore", "ignore_render", "mixed"}
	pkgs := []string{"p", "q", "r"}
	gensAll := []string{"a", "b", "c"}
	users := []string{"user.go", pipe.Base + "x.go", pipe.Base, pipe.Base + ".old.go", "notes.txt"}
	for i := 0; i < n; i++ {
		pc := pipeCase{Layout: layouts[rng.IntN(3)], Newer: rng.IntN(2) == 0, Stateful: rng.IntN(2) == 0, Variant: []string{"plain", "shadow", "split"}[rng.IntN(3)], Beh: [][]string{}, Steps: []pipeStep{}}
		for _, p := range pkgs {
			for _, g := range gensAll {
				if rng.IntN(2) == 0 {
					pc.Beh = append(pc.Beh, []string{p, g, behs[rng.IntN(len(behs))]})
				}
			}
		}
		ln := 4 + rng.IntN(8)
		for k := 0; k < ln; k++ {
			if rng.IntN(5) < 3 {
				st := pipeStep{Op: "run", All: rng.IntN(4) > 0, Force: rng.IntN(6) == 0, Entry: []string{}, Gens: []string{}, Fault: pipeFault{Kind: "none"}}
				perm := rng.Perm(3)
				ne := 1 + rng.IntN(3)
				for _, x := range perm[:ne] {
					st.Entry = append(st.Entry, pkgs[x])
				}
				gp := rng.Perm(3)
				ng := 1 + rng.IntN(3)
				for _, x := range gp[:ng] {
					st.Gens = append(st.Gens, gensAll[x])
				}
				if rng.IntN(4) == 0 {
					st.Fault = pipeFault{Kind: []string{"err", "badsyntax", "die", "panic"}[rng.IntN(4)], Pkg: pkgs[rng.IntN(3)], Gen: st.Gens[rng.IntN(len(st.Gens))], At: []string{"T1", "T2", "defer"}[rng.IntN(3)]}
					if st.Fault.At == "defer" && st.Fault.Kind == "badsyntax" {
						st.Fault.At = "T2"
					}
				}
				pc.Steps = append(pc.Steps, st)
			} else {
				ops := []string{"edit", "adduser", "deluser", "delout", "delsum", "corruptsum"}
				st := pipeStep{Op: ops[rng.IntN(len(ops))], Pkg: pkgs[rng.IntN(3)], File: users[rng.IntN(len(users))], Gen: gensAll[rng.IntN(3)],
					Kind: []string{"drop", "wrong", "garbage", "truncate", "shuffle", "noise"}[rng.IntN(6)], Entry: []string{}, Gens: []string{}, Fault: pipeFault{Kind: "none"}}
				pc.Steps = append(pc.Steps, st)
			}
		}
		emit(pc)
	}
	return nil
}
