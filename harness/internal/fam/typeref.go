package fam

import (
	"bytes"
	"encoding/json"
	"go/token"
	"go/types"
	"math/rand/v2"
	"strings"

	"github.com/octohelm/gengo/pkg/gengo"
	"github.com/octohelm/gengo/pkg/gengo/snippet"
	"github.com/octohelm/gengo/pkg/namer"
	gengotypes "github.com/octohelm/gengo/pkg/types"

	"verif/harness/internal/core"
)

// typeref (C15): ParseTypeRef/String, ParseRef/Ref, PkgImportPathAndExpose and rendering through the naming system.
//
// case: {"tree": {"path":[chars],"name":[chars],"args":[tree...]}, "self":[chars]}
// conc: {"s":[chars]}       the reference string (printed by the harness, independently of gengo)
// obs : see typerefObs
type typerefFam struct{}

func init() { core.Register("typeref", typerefFam{}) }

type refTree struct {
	Path []string  `json:"path"`
	Name []string  `json:"name"`
	Args []refTree `json:"args"`
}

type typerefCase struct {
	Tree refTree  `json:"tree"`
	Self []string `json:"self"`
}

func chars(s string) []string {
	out := make([]string, 0, len(s))
	for _, r := range s {
		out = append(out, string(r))
	}
	return out
}

func (t refTree) String() string {
	var b strings.Builder
	if len(t.Path) > 0 {
		b.WriteString(strings.Join(t.Path, ""))
		b.WriteByte('.')
	}
	b.WriteString(strings.Join(t.Name, ""))
	if len(t.Args) > 0 {
		b.WriteByte('[')
		for i, a := range t.Args {
			if i > 0 {
				b.WriteByte(',')
			}
			b.WriteString(a.String())
		}
		b.WriteByte(']')
	}
	return b.String()
}

func fromTypeRef(r *gengotypes.TypeRef) refTree {
	t := refTree{Path: chars(r.PkgPath), Name: chars(r.Name), Args: []refTree{}}
	for _, a := range r.TypeList {
		t.Args = append(t.Args, fromTypeRef(a))
	}
	return t
}

type typerefObs struct {
	core.Panic
	ParseErr       bool         `json:"parse_err"`
	ParseErrMsg    string       `json:"parse_err_msg"`
	Parsed         refTree      `json:"parsed"`
	Printed        []string     `json:"printed"`
	RefErr         bool         `json:"ref_err"`
	RefPath        []string     `json:"ref_path"`
	RefName        []string     `json:"ref_name"`
	RefString      []string     `json:"ref_string"`
	ExposePath     []string     `json:"expose_path"`
	ExposeName     []string     `json:"expose_name"`
	RenderPanicked bool         `json:"render_panicked"`
	RenderMsg      string       `json:"render_msg"`
	Rendered       []string     `json:"rendered"`
	Imports        [][][]string `json:"imports"`
}

func typerefRun(s string, self string) typerefObs {
	o := typerefObs{Parsed: refTree{Path: []string{}, Name: []string{}, Args: []refTree{}}, Printed: []string{},
		RefPath: []string{}, RefName: []string{}, RefString: []string{}, ExposePath: []string{}, ExposeName: []string{},
		Rendered: []string{}, Imports: [][][]string{}}
	o.Panic = core.Try(func() {
		r, err := gengotypes.ParseTypeRef(s)
		if err != nil {
			o.ParseErr = true
			o.ParseErrMsg = err.Error()
			return
		}
		o.Parsed = fromTypeRef(r)
		o.Printed = chars(r.String())
	})
	p2 := core.Try(func() {
		tn, err := gengotypes.ParseRef(s)
		if err != nil {
			o.RefErr = true
		} else {
			o.RefPath = chars(tn.Pkg().Path())
			o.RefName = chars(tn.Name())
			o.RefString = chars(gengotypes.Ref(tn.Pkg().Path(), tn.Name()).String())
		}
		ep, en := gengo.PkgImportPathAndExpose(s)
		o.ExposePath, o.ExposeName = chars(ep), chars(en)
	})
	if p2.Panicked {
		o.RefErr = true
	}
	tracker := namer.NewDefaultImportTracker()
	buf := bytes.NewBuffer(nil)
	sw := gengo.NewSnippetWriter(buf, namer.NameSystems{"raw": namer.NewRawNamer(self, tracker)})
	// every second reference is rendered into a file that has already named the GENERIC DECLARATION with the root's path and name
	// (a go/types object with a type parameter): what the file called that object is not what the reference reads
	if tn, err := gengotypes.ParseRef(s); err == nil && len(s)%2 == 0 && tn.Pkg() != nil && tn.Pkg().Path() != "" && tn.Pkg().Path() != self && token.IsIdentifier(tn.Name()) {
		core.Try(func() {
			pkg := types.NewPackage(tn.Pkg().Path(), "p")
			obj := types.NewTypeName(token.NoPos, pkg, tn.Name(), nil)
			named := types.NewNamed(obj, types.NewStruct(nil, nil), nil)
			named.SetTypeParams([]*types.TypeParam{types.NewTypeParam(types.NewTypeName(token.NoPos, pkg, "T", nil), types.NewInterfaceType(nil, nil))})
			sw.Render(snippet.ID(obj))
		})
		buf.Reset()
	}
	p3 := core.Try(func() { sw.Render(snippet.ID(s)) })
	o.RenderPanicked = p3.Panicked
	o.RenderMsg = p3.Msg
	if !p3.Panicked {
		o.Rendered = chars(buf.String())
	}
	imps := tracker.Imports()
	for _, p := range core.SortedKeys(imps) {
		o.Imports = append(o.Imports, [][]string{chars(p), chars(imps[p])})
	}
	return o
}

func (typerefFam) Exec(c core.CaseIn, rng *rand.Rand, emit func(cas, conc, obs any)) error {
	var tc typerefCase
	if err := json.Unmarshal(c.Case, &tc); err != nil {
		return err
	}
	s := tc.Tree.String()
	emit(nil, map[string]any{"s": chars(s)}, typerefRun(s, strings.Join(tc.Self, "")))
	return nil
}

var refIdents = []string{"T", "Map", "List", "Pair", "string", "int", "x", "Ptr_1", "Ünï", "世界"}
var refPaths = []string{"fmt", "encoding/json", "a.com/x", "a.com/x/v2", "k8s.io/api/core/v1", "github.com/o-rg/re.po/pkg", "self.io/me",
	"gopkg.in/yaml.v3", "a.b/c-d/e_f", "h.io/apis/foo/v1", "x.y/domain/user", "m"}

func randRefTree(rng *rand.Rand, depth, width int, root bool) refTree {
	t := refTree{Path: []string{}, Args: []refTree{}}
	if root || rng.IntN(4) > 0 {
		t.Path = chars(refPaths[rng.IntN(len(refPaths))])
	}
	t.Name = chars(refIdents[rng.IntN(len(refIdents))])
	if depth > 1 && rng.IntN(3) > 0 {
		n := 1 + rng.IntN(width)
		for i := 0; i < n; i++ {
			t.Args = append(t.Args, randRefTree(rng, depth-1, width, false))
		}
	}
	return t
}

func (typerefFam) Rand(n int, rng *rand.Rand, emit func(cas any)) error {
	for i := 0; i < n; i++ {
		t := randRefTree(rng, 2+rng.IntN(5), 1+rng.IntN(5), true)
		for len(t.String()) > 160 {
			t = randRefTree(rng, 2+rng.IntN(5), 1+rng.IntN(4), true)
		}
		emit(map[string]any{"tree": t, "self": chars("self.io/me")})
	}
	return nil
}
