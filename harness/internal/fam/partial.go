package fam

import (
	"encoding/json"
	"fmt"
	"math/rand/v2"
	"os"
	"path/filepath"
	"runtime"
	"strings"
	"sync"

	"verif/harness/internal/core"
)

// partial (C18): the real partialstruct generator, probed reflectively.
//
// case: {"origin":[kinds], "tags":[classes], "omit":[1-based indices], "replace": none|type|typeAndTag, "errshape": none|notStruct|plainStruct|originScalar}
// obs : {"gen_err","file_written","compile_errors","ran","probe_panic","fields":[{"name","origin_index","type_identical","type_is_replacement","tag_identical","tag_is_replacement"}],
//
//	"nil_to_nil","retained_unequal":[names],"omitted_nonzero":[names]}
type partialFam struct{}

func init() { core.Register("partial", partialFam{}) }

type psCase struct {
	Origin   []string `json:"origin"`
	Tags     []string `json:"tags"`
	Omit     []int    `json:"omit"`
	Replace  string   `json:"replace"`
	ErrShape string   `json:"errshape"`
}

func (partialFam) Exec(c core.CaseIn, rng *rand.Rand, emit func(cas, conc, obs any)) error {
	return fmt.Errorf("partial is a batch family")
}

var psTypeSrc = map[string]string{"scalar": "int", "slice": "[]string", "map": "map[string]int", "pointer": "*int", "foreignStd": "time.Time", "foreignLocal": "v.V",
	"error": "error", "iface": "fmt.Stringer", "sub": "Sub2",
	"subB": "Sub2"} // subB: a second field of the type that "sub" has - never replaced

var psTagSrc = map[string]string{"none": "", "json": `json:"f%d,omitempty"`, "dotted": `json:"meta.name%d,omitempty"   yaml:"x.y"	default:"two  words"`, "odd": `any text: "q" 100%%v @name 'x' %d é`}

const psReplTag = `json:"replaced,omitempty" x:"1"`

// psAliasOrigin: every seventh case (without nested origin structs) reaches its origin through an alias of an internal package's struct.
func psAliasOrigin(j int, pc psCase) bool {
	if j%7 != 3 || pc.ErrShape != "none" {
		return false
	}
	for _, k := range pc.Origin {
		if k == "sub" || k == "subB" {
			return false
		}
	}
	return true
}

// psDotImport: every fourth ungrouped, well-formed case names its origin through a dot import (`type x T`).
func psDotImport(j int, pc psCase) bool {
	if j%4 != 1 || pc.ErrShape != "none" {
		return false
	}
	for _, k := range pc.Origin {
		if k == "sub" {
			return false // (those cases may be written as a parenthesised group)
		}
	}
	return true
}

func psSources(j int, pc psCase) (origin, partial, probe string) {
	var o strings.Builder
	// every third origin package has a package clause that differs from its directory name (importers name it explicitly)
	clause := fmt.Sprintf("o%d", j)
	if j%3 == 1 {
		clause = fmt.Sprintf("model%d", j)
	}
	fmt.Fprintf(&o, "// Package %s holds the origin struct.\npackage %s\n\nimport (\n\t\"fmt\"\n\t\"time\"\n\n\t\"example.com/ps/v\"\n)\n\nvar (\n\t_ fmt.Stringer\n\t_ time.Time\n\t_ v.V\n)\n\n", clause, clause)
	o.WriteString("// Sub2 is a nested origin struct.\ntype Sub2 struct {\n\tF1 int\n\tF2 string\n}\n\n// Scalar is not a struct.\ntype Scalar int\n\n// T is the origin.\ntype T struct {\n")
	for i, k := range pc.Origin {
		tag := psTagSrc[pc.Tags[i]]
		if strings.Contains(tag, "%") && pc.Tags[i] != "none" {
			tag = fmt.Sprintf(tag, i+1)
		}
		fmt.Fprintf(&o, "\t// F%d is field %d.\n\tF%d %s", i+1, i+1, i+1, psTypeSrc[k])
		if tag != "" {
			fmt.Fprintf(&o, " `%s`", tag)
		}
		o.WriteString("\n")
	}
	o.WriteString("}\n")
	var p strings.Builder
	dot := psDotImport(j, pc)
	if dot {
		// the origin package is dot-imported: the declaration names the origin with a plain identifier
		fmt.Fprintf(&p, "// Package s%d holds the partial declaration.\npackage s%d\n\nimport . \"example.com/ps/o%d\"\n\nvar _ Scalar\n\n", j, j, j)
	} else {
		fmt.Fprintf(&p, "// Package s%d holds the partial declaration.\npackage s%d\n\nimport o%d \"example.com/ps/o%d\"\n\n", j, j, j, j)
	}
	switch pc.ErrShape {
	case "notStruct":
		p.WriteString("// +gengo:partialstruct\ntype x int\n")
		fmt.Fprintf(&p, "\nvar _ o%d.T\n", j)
	case "plainStruct":
		p.WriteString("// +gengo:partialstruct\ntype x struct {\n\tA int\n}\n")
		fmt.Fprintf(&p, "\nvar _ o%d.T\n", j)
	case "originScalar":
		fmt.Fprintf(&p, "// +gengo:partialstruct\ntype x o%d.Scalar\n", j)
	default:
		hasSub := false
		for _, k := range pc.Origin {
			if k == "sub" {
				hasSub = true
			}
		}
		// every other case with two declarations writes them as one parenthesised group
		grouped := hasSub && pc.Replace != "none" && len(pc.Omit)%2 == 0
		ind := ""
		if j%5 == 2 {
			// every fifth partial declaration lies below a //line directive (a file emitted by a preprocessor)
			p.WriteString("//line partial.tmpl:3\n\n")
		}
		if grouped {
			p.WriteString("type (\n")
			ind = "\t"
		}
		if hasSub && pc.Replace != "none" {
			if grouped {
				fmt.Fprintf(&p, "\t// +gengo:partialstruct\n\t// +gengo:partialstruct:omit=F2\n\tsub2 o%d.Sub2\n\n", j)
			} else {
				fmt.Fprintf(&p, "// +gengo:partialstruct\n// +gengo:partialstruct:omit=F2\ntype sub2 o%d.Sub2\n\n", j)
			}
		}
		p.WriteString(ind + "// +gengo:partialstruct\n")
		for _, i := range pc.Omit {
			fmt.Fprintf(&p, "%s// +gengo:partialstruct:omit=F%d\n", ind, i)
		}
		if pc.Replace != "none" {
			for i, k := range pc.Origin {
				if k == "sub" {
					if pc.Replace == "typeAndTag" {
						fmt.Fprintf(&p, "%s// +gengo:partialstruct:replace=F%d:Sub2 %s\n", ind, i+1, psReplTag)
					} else {
						fmt.Fprintf(&p, "%s// +gengo:partialstruct:replace=F%d:Sub2\n", ind, i+1)
					}
				}
			}
		}
		if grouped {
			fmt.Fprintf(&p, "\tx o%d.T\n)\n", j)
		} else if dot {
			p.WriteString("type x T\n")
		} else {
			fmt.Fprintf(&p, "type x o%d.T\n", j)
		}
	}
	if pc.ErrShape == "none" {
		repl := "nil"
		for _, k := range pc.Origin {
			if k == "sub" && pc.Replace != "none" {
				repl = "new(Sub2)"
			}
		}
		probe = fmt.Sprintf("package s%d\n\nimport o%d \"example.com/ps/o%d\"\n\n// Probe hands the probe program the generated struct, the origin and the replacement type.\nfunc Probe() (partial, origin, replacement any) {\n\treturn new(X), new(o%d.T), %s\n}\n", j, j, j, j, repl)
	}
	return o.String(), p.String(), probe
}

const psProbeMain = `package main

import (
	"encoding/json"
	"errors"
	"fmt"
	"os"
	"reflect"
	"time"
%s)

type str string

func (s str) String() string { return string(s) }

func fill(v reflect.Value) {
	switch v.Kind() {
	case reflect.Int, reflect.Int64:
		v.SetInt(7)
	case reflect.String:
		v.SetString("s")
	case reflect.Slice:
		s := reflect.MakeSlice(v.Type(), 2, 2)
		for i := 0; i < 2; i++ {
			fill(s.Index(i))
		}
		v.Set(s)
	case reflect.Map:
		m := reflect.MakeMap(v.Type())
		e := reflect.New(v.Type().Elem()).Elem()
		fill(e)
		m.SetMapIndex(reflect.ValueOf("a"), e)
		v.Set(m)
	case reflect.Pointer:
		p := reflect.New(v.Type().Elem())
		fill(p.Elem())
		v.Set(p)
	case reflect.Struct:
		if v.Type() == reflect.TypeOf(time.Time{}) {
			v.Set(reflect.ValueOf(time.Unix(1700000000, 0).UTC()))
			return
		}
		for i := 0; i < v.NumField(); i++ {
			fill(v.Field(i))
		}
	case reflect.Interface:
		if v.Type() == reflect.TypeFor[error]() {
			v.Set(reflect.ValueOf(errors.New("e")))
		} else {
			v.Set(reflect.ValueOf(str("x")))
		}
	}
}

type field struct {
	Name       string ` + "`json:\"name\"`" + `
	OriginIdx  int    ` + "`json:\"origin_index\"`" + `
	TypeSame   bool   ` + "`json:\"type_identical\"`" + `
	TypeRepl   bool   ` + "`json:\"type_is_replacement\"`" + `
	TagSame    bool   ` + "`json:\"tag_identical\"`" + `
	TagRepl    bool   ` + "`json:\"tag_is_replacement\"`" + `
}

type out struct {
	Ran      bool     ` + "`json:\"ran\"`" + `
	Panic    string   ` + "`json:\"probe_panic\"`" + `
	Fields   []field  ` + "`json:\"fields\"`" + `
	NilToNil bool     ` + "`json:\"nil_to_nil\"`" + `
	Unequal  []string ` + "`json:\"retained_unequal\"`" + `
	NonZero  []string ` + "`json:\"omitted_nonzero\"`" + `
}

const replTag = %q

func probe(partial, origin, replacement any) (o out) {
	o.Fields, o.Unequal, o.NonZero = []field{}, []string{}, []string{}
	defer func() {
		if r := recover(); r != nil {
			o.Panic = fmt.Sprint(r)
		}
	}()
	pv, ov := reflect.ValueOf(partial), reflect.ValueOf(origin)
	pt, ot := pv.Type().Elem(), ov.Type().Elem()
	o.Ran = true
	retained := map[string]bool{}
	for k := 0; k < pt.NumField(); k++ {
		pf := pt.Field(k)
		f := field{Name: pf.Name, OriginIdx: -1}
		for i := 0; i < ot.NumField(); i++ {
			if of := ot.Field(i); of.Name == pf.Name {
				f.OriginIdx = i + 1
				f.TypeSame = of.Type == pf.Type
				f.TagSame = of.Tag == pf.Tag
			}
		}
		if replacement != nil {
			f.TypeRepl = pf.Type == reflect.TypeOf(replacement).Elem()
		}
		f.TagRepl = string(pf.Tag) == replTag
		retained[pf.Name] = true
		o.Fields = append(o.Fields, f)
	}
	m := pv.MethodByName("DeepCopyAs")
	if !m.IsValid() {
		o.Panic = "no DeepCopyAs method"
		return
	}
	nilRes := reflect.Zero(pv.Type()).MethodByName("DeepCopyAs").Call(nil)
	o.NilToNil = len(nilRes) == 1 && nilRes[0].IsNil() && nilRes[0].Type() == ov.Type()
	fill(pv.Elem())
	res := m.Call(nil)[0]
	if res.IsNil() || res.Type() != ov.Type() {
		o.Panic = "DeepCopyAs returned nil or a wrong type"
		return
	}
	// empty, non-nil containers must arrive as such (reflect.DeepEqual tells them from nil ones)
	e := reflect.New(pt)
	for i := 0; i < pt.NumField(); i++ {
		switch f := e.Elem().Field(i); f.Kind() {
		case reflect.Slice:
			f.Set(reflect.MakeSlice(f.Type(), 0, 0))
		case reflect.Map:
			f.Set(reflect.MakeMap(f.Type()))
		}
	}
	if er := e.MethodByName("DeepCopyAs").Call(nil)[0]; !er.IsNil() {
		for i := 0; i < pt.NumField(); i++ {
			src := e.Elem().Field(i)
			if k := src.Kind(); (k == reflect.Slice || k == reflect.Map) && !reflect.DeepEqual(src.Interface(), er.Elem().FieldByName(pt.Field(i).Name).Interface()) {
				o.Unequal = append(o.Unequal, pt.Field(i).Name+"(empty)")
			}
		}
	}
	for i := 0; i < ot.NumField(); i++ {
		name := ot.Field(i).Name
		got := res.Elem().Field(i)
		if retained[name] {
			src := pv.Elem().FieldByName(name)
			if src.Type() == got.Type() {
				if !reflect.DeepEqual(src.Interface(), got.Interface()) {
					o.Unequal = append(o.Unequal, name)
				}
			} else {
				// a replaced field: its own retained fields must have arrived
				for x := 0; x < src.NumField(); x++ {
					if !reflect.DeepEqual(src.Field(x).Interface(), got.FieldByName(src.Type().Field(x).Name).Interface()) {
						o.Unequal = append(o.Unequal, name+"."+src.Type().Field(x).Name)
					}
				}
			}
		} else if !got.IsZero() {
			o.NonZero = append(o.NonZero, name)
		}
	}
	return
}

func main() {
	res := map[int]out{}
%s	_ = json.NewEncoder(os.Stdout).Encode(res)
}
`

func (partialFam) ExecAll(cases []core.CaseIn, seed int64, emit func(c core.CaseIn, cas, conc, obs any)) error {
	parsed := make([]psCase, len(cases))
	for i, c := range cases {
		if err := json.Unmarshal(c.Case, &parsed[i]); err != nil {
			return err
		}
	}
	obsOf := make([]map[string]any, len(cases))
	concOf := make([]map[string]any, len(cases))
	const perMod = 40
	type mod struct{ from, to int }
	var mods []mod
	for i := 0; i < len(cases); i += perMod {
		mods = append(mods, mod{i, min(i+perMod, len(cases))})
	}
	errs := make([]error, len(mods))
	var wg sync.WaitGroup
	sem := make(chan struct{}, max(2, runtime.NumCPU()/2))
	for mi := range mods {
		wg.Add(1)
		sem <- struct{}{}
		go func(mi int) {
			defer wg.Done()
			defer func() { <-sem }()
			errs[mi] = psModule(mods[mi].from, mods[mi].to, parsed, obsOf, concOf)
		}(mi)
	}
	wg.Wait()
	for _, e := range errs {
		if e != nil {
			return e
		}
	}
	for i, c := range cases {
		emit(c, nil, concOf[i], obsOf[i])
	}
	return nil
}

func psModule(from, to int, parsed []psCase, obsOf, concOf []map[string]any) error {
	scratch, err := core.ScratchDir("partial-")
	if err != nil {
		return err
	}
	defer os.RemoveAll(scratch)
	root := filepath.Join(scratch, "m")
	files := map[string]string{"go.mod": "module example.com/ps\n\ngo 1.24\n", "v/v.go": "// Package v is another local package.\npackage v\n\n// V is a foreign named type.\ntype V struct {\n\tN int\n}\n"}
	originKey := map[int]string{} // the file that declares the origin struct
	for j := from; j < to; j++ {
		o, p, probe := psSources(j, parsed[j])
		originKey[j] = fmt.Sprintf("o%d/o.go", j)
		if psAliasOrigin(j, parsed[j]) {
			// the origin the partial declaration names is an ALIAS that re-exports a struct of an internal package: the generated
			// file can name the alias (o<j>.T), never the internal package it stands for
			clause := fmt.Sprintf("o%d", j)
			if j%3 == 1 {
				clause = fmt.Sprintf("model%d", j)
			}
			originKey[j] = fmt.Sprintf("o%d/internal/impl/impl.go", j)
			files[originKey[j]] = strings.Replace(strings.Replace(o, "package "+clause+"\n", "package impl\n", 1), "// Package "+clause+" holds", "// Package impl holds", 1)
			o = fmt.Sprintf("// Package %s re-exports the origin struct of an internal package.\npackage %s\n\nimport \"example.com/ps/o%d/internal/impl\"\n\n// T is the origin, through an alias.\ntype T = impl.T\n\n// Scalar likewise.\ntype Scalar = impl.Scalar\n", clause, clause, j)
		}
		files[fmt.Sprintf("o%d/o.go", j)] = o
		files[fmt.Sprintf("s%d/s.go", j)] = p
		if probe != "" {
			files[fmt.Sprintf("s%d/probe.go", j)] = probe
		}
		concOf[j] = map[string]any{"origin_go": o, "partial_go": p}
	}
	if err := core.WriteFiles(root, files); err != nil {
		return err
	}
	genErr := map[int]string{}
	patterns := []string{}
	for j := from; j < to; j++ {
		if parsed[j].ErrShape == "none" {
			patterns = append(patterns, fmt.Sprintf("./s%d", j))
		}
	}
	// the judged generation is never the first one: an earlier version of every origin (one more field in front, the nested
	// struct one field shorter) has been generated from before
	if len(patterns) > 0 {
		earlier := map[string]string{}
		for j := from; j < to; j++ {
			if parsed[j].ErrShape == "none" {
				cur := files[originKey[j]]
				e := strings.Replace(cur, "type T struct {\n", "type T struct {\n\t// F0 was dropped later.\n\tF0 bool\n", 1)
				e = strings.Replace(e, "type Sub2 struct {\n\tF1 int\n\tF2 string\n}", "type Sub2 struct {\n\tF1 int\n\tF2 string\n\tC0 bool\n}", 1)
				earlier[originKey[j]] = e
			}
		}
		if err := core.WriteFiles(root, earlier); err != nil {
			return err
		}
		if _, err := runGenerators(root, scratch, "earlier", []string{"partialstruct"}, patterns, false); err != nil {
			return err
		}
		cur := map[string]string{}
		for k := range earlier {
			cur[k] = files[k]
		}
		if err := core.WriteFiles(root, cur); err != nil {
			return err
		}
	}
	needSingle := len(patterns) == 0
	if len(patterns) > 0 {
		r, err := runGenerators(root, scratch, "all", []string{"partialstruct"}, patterns, false)
		if err != nil {
			return err
		}
		needSingle = r.Err+r.LoadErr+r.Panic != ""
	}
	for j := from; j < to; j++ {
		if parsed[j].ErrShape != "none" || needSingle {
			r, err := runGenerators(root, scratch, fmt.Sprintf("s%d", j), []string{"partialstruct"}, []string{fmt.Sprintf("./s%d", j)}, false)
			if err != nil {
				return err
			}
			genErr[j] = r.Err + r.LoadErr + r.Panic
		}
	}
	var imports, body strings.Builder
	for j := from; j < to; j++ {
		if parsed[j].ErrShape == "none" && genErr[j] == "" {
			fmt.Fprintf(&imports, "\ts%d \"example.com/ps/s%d\"\n", j, j)
			fmt.Fprintf(&body, "\tres[%d] = probe(s%d.Probe())\n", j, j)
		}
	}
	if err := core.WriteFiles(root, map[string]string{"cmd/probe/main.go": fmt.Sprintf(psProbeMain, imports.String(), psReplTag, body.String())}); err != nil {
		return err
	}
	compileErrs, _ := goBuild(root)
	outputs := map[int]map[string]any{}
	if len(compileErrs) > 0 {
		// drop the packages that do not compile from the probe program
		imports.Reset()
		body.Reset()
		for j := from; j < to; j++ {
			if parsed[j].ErrShape == "none" && genErr[j] == "" && len(compileErrs[fmt.Sprintf("s%d", j)]) == 0 && len(compileErrs[fmt.Sprintf("o%d", j)]) == 0 {
				fmt.Fprintf(&imports, "\ts%d \"example.com/ps/s%d\"\n", j, j)
				fmt.Fprintf(&body, "\tres[%d] = probe(s%d.Probe())\n", j, j)
			}
		}
		if err := core.WriteFiles(root, map[string]string{"cmd/probe/main.go": fmt.Sprintf(psProbeMain, imports.String(), psReplTag, body.String())}); err != nil {
			return err
		}
	}
	if out, stderr, err := goRun(root, "./cmd/probe"); err == nil {
		if err := json.Unmarshal(out, &outputs); err != nil {
			return err
		}
	} else if len(compileErrs) == 0 {
		return fmt.Errorf("partialstruct probe failed although the module builds: %v: %s", err, tail(stderr, 800))
	}
	for j := from; j < to; j++ {
		ce := compileErrs[fmt.Sprintf("s%d", j)]
		if ce == nil {
			ce = []string{}
		}
		_, statErr := os.Stat(filepath.Join(root, fmt.Sprintf("s%d", j), "zz_generated.partialstruct.go"))
		o := map[string]any{"gen_err": genErr[j], "file_written": statErr == nil, "compile_errors": ce, "ran": false, "probe_panic": "", "fields": []any{}, "nil_to_nil": false,
			"retained_unequal": []string{}, "omitted_nonzero": []string{}}
		if got, ok := outputs[j]; ok {
			for k, v := range got {
				o[k] = v
			}
		}
		if data, err := os.ReadFile(filepath.Join(root, fmt.Sprintf("s%d", j), "zz_generated.partialstruct.go")); err == nil {
			concOf[j]["generated"] = tail(string(data), 1200)
		}
		obsOf[j] = o
	}
	return nil
}

func (partialFam) Rand(n int, rng *rand.Rand, emit func(cas any)) error { return nil }
