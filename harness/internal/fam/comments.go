package fam

import (
	"encoding/json"
	"fmt"
	"go/token"
	"go/types"
	"math/rand/v2"
	"os"
	"regexp"
	"sort"
	"strconv"
	"strings"

	gengotypes "github.com/octohelm/gengo/pkg/types"

	"verif/harness/internal/core"
)

// comments (C12): ExtractCommentTags and Doc/Comment attribution.
//
// case: {"part":"tags","lines":[[cps]...],"markers":[cps]} | {"part":"layout","ctx":..,"layout":[kinds]}
// obs (tags):   {"panicked","tags":[[key cps,[value cps...]]...] sorted by key,"others":[[cps]...]}
// obs (layout): {"panicked","decls":[{"line","name","doc_tagvals","doc_tagkeys","doc_lines","comment"}...]}
type commentsFam struct{}

func init() { core.Register("comments", commentsFam{}) }

type commentsCase struct {
	Part    string   `json:"part"`
	Lines   [][]int  `json:"lines"`
	Markers []int    `json:"markers"`
	Ctx     string   `json:"ctx"`
	Layout  []string `json:"layout"`
}

func (commentsFam) Exec(c core.CaseIn, rng *rand.Rand, emit func(cas, conc, obs any)) error {
	return fmt.Errorf("comments is a batch family")
}

func tagsRun(cc commentsCase) map[string]any {
	lines := make([]string, len(cc.Lines))
	for i, l := range cc.Lines {
		lines[i] = core.FromCPs(l)
	}
	markers := make([]byte, len(cc.Markers))
	for i, m := range cc.Markers {
		markers[i] = byte(m)
	}
	var tags map[string][]string
	var others []string
	p := core.Try(func() { tags, others = gengotypes.ExtractCommentTags(lines, markers...) })
	ot := [][]int{}
	for _, o := range others {
		ot = append(ot, core.CPs(o))
	}
	tg := []any{}
	for _, k := range core.SortedKeys(tags) {
		vs := [][]int{}
		for _, v := range tags[k] {
			vs = append(vs, core.CPs(v))
		}
		tg = append(tg, []any{core.CPs(k), vs})
	}
	return map[string]any{"panicked": p.Panicked, "panic_msg": p.Msg, "tags": tg, "others": ot}
}

// layoutSource renders layout number n of a package; returns the source fragment.
func layoutSource(n int, ctx string, layout []string) string {
	var b strings.Builder
	decl := func(L int, kind string) string {
		trail := ""
		if kind == "T" || kind == "M" || kind == "X" || kind == "E" {
			trail = fmt.Sprintf(" // t%d", L)
		}
		multi := kind == "M"
		if kind == "X" {
			// a declaration spanning several source lines; the trailing comment follows its last line
			switch ctx {
			case "top":
				return fmt.Sprintf("type T%d_%d struct {\n\tInner%d int\n}%s", n, L, L, trail)
			case "type":
				return fmt.Sprintf("\tT%d_%d struct {\n\t\tInner%d int\n\t}%s", n, L, L, trail)
			case "const":
				return fmt.Sprintf("\tC%d_%d = 1 +\n\t\t2%s", n, L, trail)
			case "var":
				return fmt.Sprintf("\tV%d_%d = []int{\n\t\t1,\n\t}%s", n, L, trail)
			default:
				return fmt.Sprintf("\tF%d_%d struct {\n\t\tInner%d int\n\t}%s", n, L, L, trail)
			}
		}
		if kind == "E" && ctx == "struct" {
			return fmt.Sprintf("\tEmb%d_%d%s", n, L, trail) // an embedded field
		}
		switch ctx {
		case "top":
			switch L % 3 {
			case 0:
				return fmt.Sprintf("type T%d_%d int%s", n, L, trail)
			case 1:
				if multi {
					return fmt.Sprintf("const C%d_%d, C%d_%db = 1, 2%s", n, L, n, L, trail)
				}
				return fmt.Sprintf("const C%d_%d = 1%s", n, L, trail)
			default:
				if multi {
					return fmt.Sprintf("var V%d_%d, V%d_%db = 1, 2%s", n, L, n, L, trail)
				}
				return fmt.Sprintf("var V%d_%d = 1%s", n, L, trail)
			}
		case "type":
			return fmt.Sprintf("\tT%d_%d int%s", n, L, trail)
		case "const":
			if multi {
				return fmt.Sprintf("\tC%d_%d, C%d_%db = 1, 2%s", n, L, n, L, trail)
			}
			return fmt.Sprintf("\tC%d_%d = 1%s", n, L, trail)
		case "var":
			if multi {
				return fmt.Sprintf("\tV%d_%d, V%d_%db = 1, 2%s", n, L, n, L, trail)
			}
			return fmt.Sprintf("\tV%d_%d = 1%s", n, L, trail)
		default: // struct
			if multi {
				return fmt.Sprintf("\tF%d_%d, F%d_%db int%s", n, L, n, L, trail)
			}
			return fmt.Sprintf("\tF%d_%d int%s", n, L, trail)
		}
	}
	b.WriteString("\n")
	switch ctx {
	case "type":
		b.WriteString("type (\n")
	case "const":
		b.WriteString("const (\n")
	case "var":
		b.WriteString("var (\n")
	case "struct":
		fmt.Fprintf(&b, "type S%d struct {\n", n)
	}
	ind := ""
	if ctx != "top" {
		ind = "\t"
	}
	for i, k := range layout {
		L := i + 1
		switch k {
		case "B":
			b.WriteString("\n")
		case "C":
			if L%3 == 2 {
				// ordinary words that start like a compiler directive ("// go: ..." with a space is none)
				fmt.Fprintf(&b, "%s// go: c%d\n", ind, L)
			} else if L%3 == 0 {
				fmt.Fprintf(&b, "%s// host:port c%d\n", ind, L)
			} else {
				fmt.Fprintf(&b, "%s// c%d\n", ind, L)
			}
		case "G":
			fmt.Fprintf(&b, "%s// +t=v%d\n", ind, L)
		case "K":
			fmt.Fprintf(&b, "%s/* k%d */\n", ind, L)
		default:
			b.WriteString(decl(L, k))
			b.WriteString("\n")
		}
	}
	if ctx != "top" {
		if ctx == "struct" {
			b.WriteString("}\n")
		} else {
			b.WriteString(")\n")
		}
	}
	if ctx == "struct" {
		for i, k := range layout {
			if k == "E" {
				fmt.Fprintf(&b, "\ntype Emb%d_%d struct{}\n", n, i+1)
			}
		}
	}
	return b.String()
}

var layoutName = regexp.MustCompile(`^(?:[TCVF]|Emb)(\d+)_(\d+)b?$`)

func (commentsFam) ExecAll(cases []core.CaseIn, seed int64, emit func(c core.CaseIn, cas, conc, obs any)) error {
	type lay struct {
		c  core.CaseIn
		cc commentsCase
	}
	var lays []lay
	for _, c := range cases {
		var cc commentsCase
		if err := json.Unmarshal(c.Case, &cc); err != nil {
			return err
		}
		if cc.Part == "tags" {
			emit(c, nil, map[string]any{}, tagsRun(cc))
			continue
		}
		lays = append(lays, lay{c, cc})
	}
	if len(lays) == 0 {
		return nil
	}
	dir, err := core.ScratchDir("comments-")
	if err != nil {
		return err
	}
	defer os.RemoveAll(dir)
	const perPkg = 400
	files := map[string]string{"go.mod": "module example.com/lay\n\ngo 1.24\n"}
	srcOf := map[int]string{}
	for i := 0; i < len(lays); i += perPkg {
		var b strings.Builder
		pk := i / perPkg
		fmt.Fprintf(&b, "package p%d\n", pk)
		for j := i; j < i+perPkg && j < len(lays); j++ {
			if j == i+perPkg/3 {
				// everything below lies under a //line directive (generated parsers, expanded templates): positions are
				// reported in another file name and with other line numbers, attribution must not care
				fmt.Fprintf(&b, "\n//line grammar%d.y:7\n\n", pk)
			}
			s := layoutSource(j, lays[j].cc.Ctx, lays[j].cc.Layout)
			srcOf[j] = s
			b.WriteString(s)
		}
		files[fmt.Sprintf("p%d/p.go", pk)] = b.String()
	}
	if err := core.WriteFiles(dir, files); err != nil {
		return err
	}
	restore := core.Silence()
	u, err := gengotypes.Load([]string{"./..."}, gengotypes.WithDir(dir))
	restore()
	if err != nil {
		return fmt.Errorf("load layouts: %w", err)
	}
	type declObs struct {
		Line       int      `json:"line"`
		Name       string   `json:"name"`
		DocTagvals []string `json:"doc_tagvals"`
		DocTagkeys []string `json:"doc_tagkeys"`
		DocLines   []string `json:"doc_lines"`
		Comment    []string `json:"comment"`
		// a second call of each, made after the caller has scribbled over everything the first call returned
		DocTagvals2 []string `json:"doc_tagvals2"`
		DocLines2   []string `json:"doc_lines2"`
		Comment2    []string `json:"comment2"`
		Panicked    bool     `json:"panicked"`
	}
	per := map[int][]declObs{}
	observe := func(p gengotypes.Package, name string, pos token.Pos) {
		m := layoutName.FindStringSubmatch(name)
		if m == nil {
			return
		}
		n, _ := strconv.Atoi(m[1])
		L, _ := strconv.Atoi(m[2])
		d := declObs{Line: L, Name: name, DocTagvals: []string{}, DocTagkeys: []string{}, DocLines: []string{}, Comment: []string{},
			DocTagvals2: []string{}, DocLines2: []string{}, Comment2: []string{}}
		pn := core.Try(func() {
			tags, lines := p.Doc(pos)
			for _, k := range core.SortedKeys(tags) {
				d.DocTagkeys = append(d.DocTagkeys, k)
			}
			d.DocTagvals = append(d.DocTagvals, tags["t"]...)
			d.DocLines = append(d.DocLines, lines...)
			cm := p.Comment(pos)
			d.Comment = append(d.Comment, cm...)
			// what a call returned belongs to the caller (gengo's own Context.Doc edits the first line in place)
			for k, vs := range tags {
				for i := range vs {
					vs[i] = "scribbled"
				}
				tags[k] = append(vs, "scribbled")
			}
			tags["scribbled"] = []string{"x"}
			for i := range lines {
				lines[i] = "scribbled"
			}
			for i := range cm {
				cm[i] = "scribbled"
			}
			tags2, lines2 := p.Doc(pos)
			d.DocTagvals2 = append(d.DocTagvals2, tags2["t"]...)
			d.DocLines2 = append(d.DocLines2, lines2...)
			d.Comment2 = append(d.Comment2, p.Comment(pos)...)
		})
		d.Panicked = pn.Panicked
		per[n] = append(per[n], d)
	}
	for i := 0; i < len(lays); i += perPkg {
		p := u.Package(fmt.Sprintf("example.com/lay/p%d", i/perPkg))
		if p == nil {
			return fmt.Errorf("package p%d not loaded", i/perPkg)
		}
		scope := p.Pkg().Scope()
		for _, name := range scope.Names() {
			obj := scope.Lookup(name)
			if !strings.HasPrefix(name, "Emb") { // the helper types embedded by "E" lines are not layout declarations
				observe(p, name, obj.Pos())
			}
			if tn, ok := obj.(*types.TypeName); ok {
				if st, ok := tn.Type().Underlying().(*types.Struct); ok {
					for k := 0; k < st.NumFields(); k++ {
						observe(p, st.Field(k).Name(), st.Field(k).Pos())
					}
				}
			}
		}
	}
	for j, l := range lays {
		ds := per[j]
		sort.Slice(ds, func(a, b int) bool {
			if ds[a].Line != ds[b].Line {
				return ds[a].Line < ds[b].Line
			}
			return ds[a].Name < ds[b].Name
		})
		if ds == nil {
			ds = []declObs{}
		}
		panicked := false
		for _, d := range ds {
			panicked = panicked || d.Panicked
		}
		emit(l.c, nil, map[string]any{"source": srcOf[j]}, map[string]any{"panicked": panicked, "decls": ds})
	}
	return nil
}

func (commentsFam) Rand(n int, rng *rand.Rand, emit func(cas any)) error {
	// long random tag-line lists with custom markers, and long layouts
	alpha := []rune(" +@=kvxyz\"#-_:/\u5e2b\u0140\u4e2b")
	for i := 0; i < n; i++ {
		nl := 1 + rng.IntN(6)
		lines := [][]int{}
		for j := 0; j < nl; j++ {
			ln := rng.IntN(14)
			var b strings.Builder
			for k := 0; k < ln; k++ {
				b.WriteRune(alpha[rng.IntN(len(alpha))])
			}
			lines = append(lines, core.CPs(b.String()))
		}
		markers := []int{43, 64}
		if rng.IntN(3) == 0 {
			markers = []int{35}
		}
		emit(map[string]any{"part": "tags", "lines": lines, "markers": markers, "ctx": "none", "layout": []string{}})
	}
	kinds := []string{"B", "C", "G", "K", "D", "T", "M"}
	ctxs := []string{"top", "type", "const", "var", "struct"}
	for i := 0; i < n/4; i++ {
		ln := 6 + rng.IntN(10)
		lay := make([]string, ln)
		for j := range lay {
			lay[j] = kinds[rng.IntN(len(kinds))]
		}
		emit(map[string]any{"part": "layout", "lines": [][]int{}, "markers": []int{43, 64}, "ctx": ctxs[rng.IntN(len(ctxs))], "layout": lay})
	}
	return nil
}
