package fam

import (
	"bytes"
	"encoding/json"
	"fmt"
	"go/ast"
	"go/parser"
	"go/token"
	"go/types"
	"math/rand/v2"
	"os"
	"reflect"
	"sort"
	"strings"
	"sync"
	"time"

	"github.com/octohelm/gengo/pkg/gengo"
	"github.com/octohelm/gengo/pkg/gengo/snippet"
	"github.com/octohelm/gengo/pkg/namer"
	gengotypes "github.com/octohelm/gengo/pkg/types"

	"verif/harness/internal/core"
	"verif/harness/internal/fixt"
	dotted "verif/harness/internal/fixt/sub/dotted.v3"
	clash "verif/harness/internal/fixt/sub/fixt"
	subjson "verif/harness/internal/fixt/sub/json"
	"verif/harness/internal/fixt2"
)

// typelit (C11): type expressions rendered with snippet.ID from the go/types view and from the reflect view.
//
// case: {"tree":{"k","id","sub"}, "target": "fixt"|"fixt2"|"clash-pre", "view": "types"|"reflect", "mentions":[pkg ids]}
// obs : {"panicked","rendered","check_errors","got","want","imported","preimported","qualifies_target"}
type typelitFam struct{}

func init() { core.Register("typelit", typelitFam{}) }

type tlTree struct {
	K   string   `json:"k"`
	ID  string   `json:"id"`
	Sub []tlTree `json:"sub"`
}

type tlCase struct {
	Tree   tlTree `json:"tree"`
	Target string `json:"target"`
	View   string `json:"view"`
}

const (
	fixtPath  = "verif/harness/internal/fixt"
	fixt2Path = "verif/harness/internal/fixt2"
	clashPath = "verif/harness/internal/fixt/sub/fixt"
	// a package of the module called json (the name of a standard library package) and the standard package itself
	subjsonPath = "verif/harness/internal/fixt/sub/json"
	stdjsonPath = "encoding/json"
	// a package whose last path element contains a dot
	dottedPath = "verif/harness/internal/fixt/sub/dotted.v3"
)

var pkgIDOf = map[string]string{fixtPath: "fixt", fixt2Path: "fixt2", clashPath: "clash", subjsonPath: "subjson", stdjsonPath: "stdjson", dottedPath: "dotted", "time": "stdtime"}

var (
	fixtOnce sync.Once
	fixtU    *gengotypes.Universe
	fixtErr  error
)

func harnessDir() string {
	if d := os.Getenv("VERIF_HARNESS"); d != "" {
		return d
	}
	return "/verif/harness"
}

func fixtUniverse() (*gengotypes.Universe, error) {
	fixtOnce.Do(func() {
		restore := core.Silence()
		defer restore()
		fixtU, fixtErr = gengotypes.Load([]string{"./internal/fixt/...", "./internal/fixt2"}, gengotypes.WithDir(harnessDir()))
	})
	return fixtU, fixtErr
}

func namedOf(u *gengotypes.Universe, path, name string) (types.Type, error) {
	p := u.Package(path)
	if p == nil {
		return nil, fmt.Errorf("fixture package %s not loaded", path)
	}
	obj := p.Pkg().Scope().Lookup(name)
	if obj == nil {
		return nil, fmt.Errorf("fixture type %s.%s not found", path, name)
	}
	return obj.Type(), nil
}

func leafTypes(u *gengotypes.Universe, id string) (types.Type, error) {
	switch id {
	case "int", "string", "bool", "float64", "uint8", "int64", "float32", "rune", "byte":
		return types.Universe.Lookup(id).Type(), nil
	case "error", "any":
		return types.Universe.Lookup(id).Type(), nil
	case "fixt.A":
		return namedOf(u, fixtPath, "A")
	case "fixt.AI":
		return namedOf(u, fixtPath, "AI")
	case "fixt2.B":
		return namedOf(u, fixt2Path, "B")
	case "fixt2.BS":
		return namedOf(u, fixt2Path, "BS")
	case "clash.C":
		return namedOf(u, clashPath, "C")
	case "subjson.J":
		return namedOf(u, subjsonPath, "J")
	case "stdjson.RawMessage":
		return namedOf(u, stdjsonPath, "RawMessage")
	case "fixt.PA":
		return namedOf(u, fixtPath, "PA")
	case "fixt.Gen[int]", "fixt.Gen[fixt.A]", "fixt.Gen[fixt2.B]", "fixt.Gen[dotted.D]", "fixt.Gen[stdtime.Duration]":
		g, err := namedOf(u, fixtPath, "Gen")
		if err != nil {
			return nil, err
		}
		arg := types.Type(types.Typ[types.Int])
		if id == "fixt.Gen[fixt.A]" {
			if arg, err = namedOf(u, fixtPath, "A"); err != nil {
				return nil, err
			}
		}
		if id == "fixt.Gen[fixt2.B]" {
			if arg, err = namedOf(u, fixt2Path, "B"); err != nil {
				return nil, err
			}
		}
		if id == "fixt.Gen[dotted.D]" {
			if arg, err = namedOf(u, dottedPath, "D"); err != nil {
				return nil, err
			}
		}
		if id == "fixt.Gen[stdtime.Duration]" { // the argument's import path has ONE element
			if arg, err = namedOf(u, "time", "Duration"); err != nil {
				return nil, err
			}
		}
		return types.Instantiate(nil, g, []types.Type{arg}, true)
	}
	return nil, fmt.Errorf("unknown leaf %q", id)
}

func leafReflect(id string) (reflect.Type, error) {
	switch id {
	case "int":
		return reflect.TypeOf(0), nil
	case "string":
		return reflect.TypeOf(""), nil
	case "error":
		return reflect.TypeFor[error](), nil
	case "any":
		return reflect.TypeFor[any](), nil
	case "fixt.A":
		return reflect.TypeOf(fixt.A{}), nil
	case "fixt.AI":
		return reflect.TypeOf(fixt.AI(0)), nil
	case "fixt2.B":
		return reflect.TypeOf(fixt2.B{}), nil
	case "fixt2.BS":
		return reflect.TypeOf(fixt2.BS("")), nil
	case "clash.C":
		return reflect.TypeOf(clash.C{}), nil
	case "fixt.Gen[int]":
		return reflect.TypeOf(fixt.Gen[int]{}), nil
	case "fixt.Gen[fixt.A]":
		return reflect.TypeOf(fixt.Gen[fixt.A]{}), nil
	case "fixt.Gen[fixt2.B]":
		return reflect.TypeOf(fixt.Gen[fixt2.B]{}), nil
	case "fixt.Gen[dotted.D]":
		return reflect.TypeOf(fixt.Gen[dotted.D]{}), nil
	case "fixt.Gen[stdtime.Duration]":
		return reflect.TypeOf(fixt.Gen[time.Duration]{}), nil
	case "fixt.PA":
		return reflect.TypeOf(fixt.PA(nil)), nil
	case "subjson.J":
		return reflect.TypeOf(subjson.J{}), nil
	case "stdjson.RawMessage":
		return reflect.TypeOf(json.RawMessage{}), nil
	}
	return nil, fmt.Errorf("unknown leaf %q", id)
}

const tlTag = ` json:"f,omitempty" x:"1" layout:"%Y-%m-%d 100%" ` // (a tag is compared verbatim: the blanks at its ends are part of it)

func embeddedName(t types.Type) string {
	if n, ok := t.(*types.Named); ok {
		return n.Obj().Name()
	}
	return "E"
}

func buildTypes(u *gengotypes.Universe, t tlTree) (types.Type, error) {
	if t.K == "leaf" {
		return leafTypes(u, t.ID)
	}
	subs := make([]types.Type, len(t.Sub))
	for i := range t.Sub {
		var err error
		if subs[i], err = buildTypes(u, t.Sub[i]); err != nil {
			return nil, err
		}
	}
	switch t.K {
	case "ptr":
		return types.NewPointer(subs[0]), nil
	case "slice":
		return types.NewSlice(subs[0]), nil
	case "array3":
		return types.NewArray(subs[0], 3), nil
	case "array0": // the boundary length
		return types.NewArray(subs[0], 0), nil
	case "chan":
		return types.NewChan(types.SendRecv, subs[0]), nil
	case "mapS":
		return types.NewMap(types.Typ[types.String], subs[0]), nil
	case "mapK":
		return types.NewMap(subs[0], subs[1]), nil
	case "struct1":
		return types.NewStruct([]*types.Var{types.NewField(token.NoPos, nil, "F", subs[0], false)}, []string{tlTag}), nil
	case "struct3": // two plain fields of arbitrary types (the same type may occur twice in one expression)
		return types.NewStruct([]*types.Var{types.NewField(token.NoPos, nil, "First", subs[0], false), types.NewField(token.NoPos, nil, "Second", subs[1], false)}, nil), nil
	case "struct2":
		return types.NewStruct([]*types.Var{types.NewField(token.NoPos, nil, embeddedName(subs[0]), subs[0], true), types.NewField(token.NoPos, nil, "G", subs[1], false)}, []string{`json:",inline"`, ""}), nil
	}
	return nil, fmt.Errorf("unknown constructor %q", t.K)
}

func buildReflect(t tlTree) (reflect.Type, error) {
	if t.K == "leaf" {
		return leafReflect(t.ID)
	}
	subs := make([]reflect.Type, len(t.Sub))
	for i := range t.Sub {
		var err error
		if subs[i], err = buildReflect(t.Sub[i]); err != nil {
			return nil, err
		}
	}
	switch t.K {
	case "ptr":
		return reflect.PointerTo(subs[0]), nil
	case "slice":
		return reflect.SliceOf(subs[0]), nil
	case "array3":
		return reflect.ArrayOf(3, subs[0]), nil
	case "array0":
		return reflect.ArrayOf(0, subs[0]), nil
	case "chan":
		return reflect.ChanOf(reflect.BothDir, subs[0]), nil
	case "mapS":
		return reflect.MapOf(reflect.TypeOf(""), subs[0]), nil
	case "mapK":
		return reflect.MapOf(subs[0], subs[1]), nil
	case "struct1":
		return reflect.StructOf([]reflect.StructField{{Name: "F", Type: subs[0], Tag: reflect.StructTag(tlTag)}}), nil
	case "struct3":
		return reflect.StructOf([]reflect.StructField{{Name: "First", Type: subs[0]}, {Name: "Second", Type: subs[1]}}), nil
	case "struct2":
		return reflect.StructOf([]reflect.StructField{{Name: subs[0].Name()[:strings.IndexAny(subs[0].Name()+"[", "[")], Type: subs[0], Anonymous: true, Tag: `json:",inline"`}, {Name: "G", Type: subs[1]}}), nil
	}
	return nil, fmt.Errorf("unknown constructor %q", t.K)
}

type universeImporter struct{ u *gengotypes.Universe }

func (i universeImporter) Import(path string) (*types.Package, error) {
	if p := i.u.Package(path); p != nil {
		return p.Pkg(), nil
	}
	return nil, fmt.Errorf("package %s is not in the universe", path)
}

// checkRendered type-checks `var X <rendered>` inside the target package with exactly the given imports and returns the type's string.
func checkRendered(u *gengotypes.Universe, targetPath string, imports map[string]string, preUse map[string]string, rendered string) (string, []string) {
	tp := u.Package(targetPath)
	var src bytes.Buffer
	fmt.Fprintf(&src, "package %s\n\n", tp.Pkg().Name())
	paths := core.SortedKeys(imports)
	for _, p := range paths {
		fmt.Fprintf(&src, "import %s %q\n", imports[p], p)
	}
	fmt.Fprintf(&src, "\nvar XCheck %s\n", rendered)
	for p, use := range preUse {
		fmt.Fprintf(&src, "\nvar _ %s.%s\n", imports[p], use)
	}
	fset := token.NewFileSet()
	files := []*ast.File{}
	for _, f := range tp.Files() {
		// re-parse the target package's own files so that its declarations are in scope for unqualified names
		name := tp.FileSet().Position(f.Package).Filename
		pf, err := parser.ParseFile(fset, name, nil, 0)
		if err != nil {
			return "", []string{err.Error()}
		}
		files = append(files, pf)
	}
	extra, err := parser.ParseFile(fset, "xcheck.go", src.Bytes(), 0)
	if err != nil {
		return "", []string{"parse: " + err.Error()}
	}
	files = append(files, extra)
	errs := []string{}
	conf := types.Config{Importer: universeImporter{u}, Error: func(err error) { errs = append(errs, err.Error()) }}
	pkg, _ := conf.Check(targetPath, fset, files, nil)
	if len(errs) > 0 || pkg == nil {
		return "", errs
	}
	obj := pkg.Scope().Lookup("XCheck")
	if obj == nil {
		return "", []string{"XCheck not found"}
	}
	return types.TypeString(obj.Type(), nil), errs
}

func (typelitFam) Exec(c core.CaseIn, rng *rand.Rand, emit func(cas, conc, obs any)) error {
	var tc tlCase
	if err := json.Unmarshal(c.Case, &tc); err != nil {
		return err
	}
	u, err := fixtUniverse()
	if err != nil {
		return fmt.Errorf("load fixture packages: %w", err)
	}
	orig, err := buildTypes(u, tc.Tree)
	if err != nil {
		return err
	}
	// "dotted": the file being written belongs to the package whose directory is dotted.v3 (a dot in the last path element)
	targetPath := map[string]string{"fixt": fixtPath, "fixt2": fixt2Path, "clash-pre": fixt2Path, "dotted": dottedPath}[tc.Target]
	if targetPath == "" {
		return fmt.Errorf("unknown target %q", tc.Target)
	}
	var arg any = orig
	if tc.View == "reflect" {
		rt, err := buildReflect(tc.Tree)
		if err != nil {
			return err
		}
		arg = rt
	}
	tracker := namer.NewDefaultImportTracker()
	buf := bytes.NewBuffer(nil)
	sw := gengo.NewSnippetWriter(buf, namer.NameSystems{"raw": namer.NewRawNamer(targetPath, tracker)})
	preimported := []string{}
	preUse := map[string]string{}
	if tc.Target == "clash-pre" {
		// the file already refers to the other package called fixt: the name "fixt" is taken
		sw.Render(snippet.ID(clashPath + ".CI"))
		buf.Reset()
		preimported = append(preimported, "clash")
		preUse[clashPath] = "CI"
	}
	obs := map[string]any{"rendered": "", "check_errors": []string{}, "got": "", "want": types.TypeString(orig, nil), "imported": []string{}, "preimported": preimported, "qualifies_target": false}
	pn := core.Try(func() { sw.Render(snippet.ID(arg)) })
	obs["panicked"], obs["panic_msg"], obs["panic_site"] = pn.Panicked, pn.Msg, pn.Site
	if !pn.Panicked {
		rendered := buf.String()
		obs["rendered"] = rendered
		imps := tracker.Imports()
		imported := []string{}
		for p := range imps {
			if id, ok := pkgIDOf[p]; ok {
				imported = append(imported, id)
			} else {
				imported = append(imported, p)
			}
			if p == targetPath {
				obs["qualifies_target"] = true
			}
		}
		sort.Strings(imported)
		obs["imported"] = imported
		got, errs := checkRendered(u, targetPath, imps, preUse, rendered)
		if errs == nil {
			errs = []string{}
		}
		obs["got"], obs["check_errors"] = got, errs
	}
	cas := map[string]any{"tree": tc.Tree, "target": map[string]string{"fixt": "fixt", "fixt2": "fixt2", "clash-pre": "fixt2", "dotted": "dotted"}[tc.Target], "scenario": tc.Target, "view": tc.View}
	var m map[string]any
	_ = json.Unmarshal(c.Case, &m)
	cas["mentions"] = m["mentions"]
	emit(cas, map[string]any{}, obs)
	return nil
}

func (typelitFam) Rand(n int, rng *rand.Rand, emit func(cas any)) error { return nil }
