package fam

import (
	"crypto/sha256"
	"encoding/hex"
	"encoding/json"
	"fmt"
	"math/rand/v2"
	"os"
	"path/filepath"
	"runtime"
	"sort"
	"strings"
	"sync"

	"verif/harness/internal/core"
)

// deepcopy (C17): the real deepcopy generator over generated struct types, probed reflectively at run time.
//
// case: {"fields":[kinds], "variant": plain|generic|interfaces|typeTagged}
// obs : {"gen_err","second_run_err","stable","compile_errors","ran","probe_panic","nil_to_nil","equal","aliased":[paths],"leaked":[paths]}
type deepcopyFam struct{}

func init() { core.Register("deepcopy", deepcopyFam{}) }

type dcCase struct {
	Fields  []string `json:"fields"`
	Variant string   `json:"variant"`
}

func (deepcopyFam) Exec(c core.CaseIn, rng *rand.Rand, emit func(cas, conc, obs any)) error {
	return fmt.Errorf("deepcopy is a batch family")
}

var dcFieldSrc = map[string]string{
	"scalar":        "N int",
	"str":           "S string",
	"sliceInt":      "LI []int",
	"sliceStr":      "LS []string",
	"mapStr":        "MS map[string]int",
	"structVal":     "In Inner",
	"structDeep":    "D Deep",
	"definedScalar": "DS MyInt",
	"definedMap":    "DM MyMap",
	"definedMapM":   "DMM MyMapM",
	"mapOfDefined":  "MD map[string]MyInt",
	"errorField":    "Err error",
	"ifaceField":    "St fmt.Stringer",
	"typeParam":     "TP T",
	"genericInst":   "GI Gen[int]",
	"untaggedDep":   "U Untagged",
	// an instantiation whose type argument is a named type of the package; the generic struct is first met through this field
	"genericNamedArg": "GN ZPair[string, Level]",
	// a defined map whose name sorts after the root type's: it is first met as a dependency of the root type
	"definedMapLate": "ZM ZMap",
	// a dependency with two struct fields of its own (its dependencies outnumber the root type's visited ones)
	"structWide": "W Wide",
	// a struct by value whose first non-scalar field is a scalar-only struct, followed by containers
	"structMixed": "MX Mixed",
	// two fields of one and the same struct type that holds containers: the second must be copied as deeply as the first
	"structTwice": "TW1 Series\n\tTW2 Series",
	// the package declares identifiers named like standard packages a generated file might import (slices, maps)
	"identClash": "SL []bool\n\tMP map[string]bool",
	// a struct by value whose only container is of a DEFINED map type (no literal slice / map anywhere in it)
	"structDefinedMap": "Meta MetaT",
	// an embedded same-package struct, one of whose field names the embedding struct declares itself as well (shadowing)
	"embedShadow": "EmbT\n\tTags []string",
	// eight helper types, each declared in a FILE OF ITS OWN (see dcModule): the order of their methods in the generated file is
	// the same in every run, whatever order the files were parsed in
	"manyHelpers": "H1 Hlp1\n\tH2 Hlp2\n\tH3 Hlp3\n\tH4 Hlp4\n\tH5 Hlp5\n\tH6 Hlp6\n\tH7 Hlp7\n\tH8 Hlp8",
	// two enabled types whose names differ in case only: their order in the generated file is fixed all the same
	"caseTwins": "Op Option\n\tOp2 option",
}

var dcDeps = map[string]string{
	"structVal":        "// Inner is nested by value.\ntype Inner struct {\n\tL []int\n\tX int\n}\n",
	"structDeep":       "// Deep nests two levels.\ntype Deep struct {\n\tIn2 Inner2\n\tM   map[string]string\n}\n\n// Inner2 is the second level.\ntype Inner2 struct {\n\tL []string\n}\n",
	"definedScalar":    "// MyInt is a defined scalar.\ntype MyInt int\n",
	"definedMap":       "// MyMap is a defined map.\ntype MyMap map[string]int\n",
	"definedMapM":      "// MyMapM is a defined map with a method of its own.\ntype MyMapM map[string]int\n\n// Len is hand written.\nfunc (m MyMapM) Len() int { return len(m) }\n",
	"mapOfDefined":     "// MyInt is a defined scalar.\ntype MyInt int\n",
	"genericInst":      "// Gen is a generic struct.\ntype Gen[X any] struct {\n\tV X\n\tL []int\n}\n",
	"untaggedDep":      "// Untagged is a dependency without its own tag.\ntype Untagged struct {\n\tL []int\n}\n",
	"structWide":       "// Wide has two struct fields of its own.\ntype Wide struct {\n\tA WA\n\tB WB\n}\n\n// WA is the first.\ntype WA struct {\n\tL []int\n}\n\n// WB is the second.\ntype WB struct {\n\tM map[string]int\n}\n",
	"structMixed":      "// Mixed starts with scalars and a scalar-only struct; containers follow.\ntype Mixed struct {\n\tAuthor string\n\tOrigin Point\n\tTags   []string\n\tAttrs  map[string]string\n}\n\n// Point has scalars only.\ntype Point struct {\n\tX, Y int\n}\n",
	"structTwice":      "// Series holds containers; the root type has two fields of it.\ntype Series struct {\n\tPoints []int\n\tTags   map[string]string\n}\n",
	"structDefinedMap": "// MetaT holds scalars and a defined map.\ntype MetaT struct {\n\tName   string\n\tLabels Labels\n}\n\n// Labels is a defined map type.\ntype Labels map[string]string\n",
	"embedShadow":      "// EmbT is embedded by the root type, which has a field Tags of its own too.\ntype EmbT struct {\n\tTags []string\n\tN    int\n}\n",
	"manyHelpers":      "//FILE h1.go\n// Hlp1 lives in a file of its own.\ntype Hlp1 struct {\n\tL []int\n}\n//FILE h2.go\n// Hlp2 lives in a file of its own.\ntype Hlp2 struct {\n\tL []int\n}\n//FILE h3.go\n// Hlp3 lives in a file of its own.\ntype Hlp3 struct {\n\tL []int\n}\n//FILE h4.go\n// Hlp4 lives in a file of its own.\ntype Hlp4 struct {\n\tL []int\n}\n//FILE h5.go\n// Hlp5 lives in a file of its own.\ntype Hlp5 struct {\n\tL []int\n}\n//FILE h6.go\n// Hlp6 lives in a file of its own.\ntype Hlp6 struct {\n\tL []int\n}\n//FILE h7.go\n// Hlp7 lives in a file of its own.\ntype Hlp7 struct {\n\tL []int\n}\n//FILE h8.go\n// Hlp8 lives in a file of its own.\ntype Hlp8 struct {\n\tL []int\n}\n",
	"caseTwins":        "// Option is exported.\ntype Option struct {\n\tL []int\n}\n\n// option differs from Option in case only.\ntype option struct {\n\tM map[string]int\n}\n",
	"identClash":       "// slices is an identifier of this package.\ntype slices uint8\n\n// maps likewise.\ntype maps uint8\n",
	"definedMapLate":   "// ZMap is a defined map; its name sorts after the root type's.\ntype ZMap map[string]int\n",
	"genericNamedArg":  "// ZPair is generic; its name sorts after the root type's, so it is first met as a dependency.\ntype ZPair[K comparable, V any] struct {\n\tKey K\n\tVal V\n\tM   map[string]int\n}\n\n// Level is a defined scalar used as a type argument.\ntype Level int\n",
}

func dcSource(pkg string, dc dcCase) string {
	fields := append([]string{}, dc.Fields...)
	sort.Strings(fields)
	var b strings.Builder
	pkgTag := "// +gengo:deepcopy\n"
	typeTag := ""
	if dc.Variant == "typeTagged" {
		pkgTag, typeTag = "", "// +gengo:deepcopy\n"
	}
	if dc.Variant == "interfaces" {
		typeTag += "// +gengo:deepcopy:interfaces=example.com/dc/rt.Object\n"
	}
	fmt.Fprintf(&b, "// Package %s is a generated case.\n//\n%spackage %s\n\n", pkg, pkgTag, pkg)
	needFmt := false
	for _, f := range fields {
		if f == "ifaceField" {
			needFmt = true
		}
	}
	if needFmt {
		b.WriteString("import \"fmt\"\n\n")
	}
	fmt.Fprintf(&b, "// S is the root type.\n%s", typeTag)
	if dc.Variant == "generic" {
		b.WriteString("type S[T any] struct {\n")
	} else {
		b.WriteString("type S struct {\n")
	}
	for _, f := range fields {
		fmt.Fprintf(&b, "\t%s\n", dcFieldSrc[f])
	}
	b.WriteString("}\n\n")
	seen := map[string]bool{}
	for _, f := range fields {
		if d, ok := dcDeps[f]; ok && !seen[d] {
			seen[d] = true
			b.WriteString(d)
			b.WriteString("\n")
		}
	}
	return b.String()
}

const dcProbeMain = `package main

import (
	"encoding/json"
	"errors"
	"fmt"
	"os"
	"reflect"

	"example.com/dc/canon"
%s)

type str string

func (s str) String() string { return string(s) }

func fill(v reflect.Value) {
	switch v.Kind() {
	case reflect.Int, reflect.Int8, reflect.Int16, reflect.Int32, reflect.Int64:
		v.SetInt(7)
	case reflect.String:
		v.SetString("s")
	case reflect.Bool:
		v.SetBool(true)
	case reflect.Slice:
		s := reflect.MakeSlice(v.Type(), 2, 4)
		for i := 0; i < 2; i++ {
			fill(s.Index(i))
		}
		v.Set(s)
	case reflect.Map:
		m := reflect.MakeMap(v.Type())
		for _, k := range []string{"a", "b"} {
			e := reflect.New(v.Type().Elem()).Elem()
			fill(e)
			m.SetMapIndex(reflect.ValueOf(k).Convert(v.Type().Key()), e)
		}
		v.Set(m)
	case reflect.Struct:
		for i := 0; i < v.NumField(); i++ {
			fill(v.Field(i))
		}
	case reflect.Interface:
		if v.Type() == reflect.TypeFor[error]() {
			v.Set(reflect.ValueOf(errors.New("e")))
		} else if reflect.TypeOf(str("")).Implements(v.Type()) {
			v.Set(reflect.ValueOf(str("x")))
		}
	}
}

func fillEmpty(v reflect.Value) {
	switch v.Kind() {
	case reflect.Slice:
		v.Set(reflect.MakeSlice(v.Type(), 0, 0))
	case reflect.Map:
		v.Set(reflect.MakeMap(v.Type()))
	case reflect.Struct:
		for i := 0; i < v.NumField(); i++ {
			fillEmpty(v.Field(i))
		}
	}
}

// containers reachable through by-value struct nesting
func containers(v reflect.Value, path string, f func(path string, c reflect.Value)) {
	switch v.Kind() {
	case reflect.Slice, reflect.Map:
		f(path, v)
	case reflect.Struct:
		for i := 0; i < v.NumField(); i++ {
			containers(v.Field(i), path+"."+v.Type().Field(i).Name, f)
		}
	}
}

func mutate(c reflect.Value) {
	switch c.Kind() {
	case reflect.Slice:
		if c.Len() > 0 {
			c.Index(0).Set(reflect.Zero(c.Type().Elem()))
		}
		c.Set(reflect.Append(c, reflect.Zero(c.Type().Elem())))
	case reflect.Map:
		for _, k := range c.MapKeys() {
			c.SetMapIndex(k, reflect.Zero(c.Type().Elem()))
		}
		c.SetMapIndex(reflect.ValueOf("new").Convert(c.Type().Key()), reflect.Zero(c.Type().Elem()))
	}
}

type out struct {
	Ran      bool     ` + "`json:\"ran\"`" + `
	Panic    string   ` + "`json:\"probe_panic\"`" + `
	NilToNil bool     ` + "`json:\"nil_to_nil\"`" + `
	Equal    bool     ` + "`json:\"equal\"`" + `
	Aliased  []string ` + "`json:\"aliased\"`" + `
	Leaked   []string ` + "`json:\"leaked\"`" + `
	Paths    int      ` + "`json:\"container_paths\"`" + `
}

func probe(p any) (o out) {
	o.Aliased, o.Leaked = []string{}, []string{}
	defer func() {
		if r := recover(); r != nil {
			o.Panic = fmt.Sprint(r)
		}
	}()
	orig := reflect.ValueOf(p)
	m := orig.MethodByName("DeepCopy")
	if !m.IsValid() {
		o.Panic = "no DeepCopy method"
		return
	}
	o.Ran = true
	nilRes := reflect.Zero(orig.Type()).MethodByName("DeepCopy").Call(nil)
	o.NilToNil = len(nilRes) == 1 && nilRes[0].IsNil()
	fill(orig.Elem())
	cp := m.Call(nil)[0]
	o.Equal = !cp.IsNil() && reflect.DeepEqual(orig.Elem().Interface(), cp.Elem().Interface())
	if cp.IsNil() {
		return
	}
	// ... and with empty, non-nil containers (reflect.DeepEqual tells them from nil ones)
	e := reflect.New(orig.Type().Elem())
	fillEmpty(e.Elem())
	ec := e.MethodByName("DeepCopy").Call(nil)[0]
	if ec.IsNil() || !reflect.DeepEqual(e.Elem().Interface(), ec.Elem().Interface()) {
		o.Equal = false
	}
	// assigning into an empty (non-nil) container of that copy must not show in the original either
	var emptyPaths []string
	containers(ec.Elem(), "", func(path string, c reflect.Value) { emptyPaths = append(emptyPaths, path) })
	for _, path := range emptyPaths {
		before := canon.Canon(e.Elem().Interface())
		containers(ec.Elem(), "", func(p2 string, c reflect.Value) {
			if p2 == path {
				mutate(c)
			}
		})
		if canon.Canon(e.Elem().Interface()) != before {
			o.Leaked = append(o.Leaked, "empty"+path)
		}
	}
	origC := map[string]reflect.Value{}
	containers(orig.Elem(), "", func(path string, c reflect.Value) { origC[path] = c })
	var paths []string
	containers(cp.Elem(), "", func(path string, c reflect.Value) {
		paths = append(paths, path)
		if oc, ok := origC[path]; ok && oc.Len() > 0 && c.Len() > 0 && oc.Pointer() == c.Pointer() {
			o.Aliased = append(o.Aliased, path)
		}
	})
	o.Paths = len(paths)
	for _, path := range paths {
		before := canon.Canon(orig.Elem().Interface())
		containers(cp.Elem(), "", func(p2 string, c reflect.Value) {
			if p2 == path {
				mutate(c)
			}
		})
		if canon.Canon(orig.Elem().Interface()) != before {
			o.Leaked = append(o.Leaked, path)
		}
	}
	return
}

func main() {
	res := map[int]out{}
%s	_ = json.NewEncoder(os.Stdout).Encode(res)
}
`

func dcDigest(path string) string {
	data, err := os.ReadFile(path)
	if err != nil {
		return "absent"
	}
	s := sha256.Sum256(data)
	return hex.EncodeToString(s[:8])
}

func (deepcopyFam) ExecAll(cases []core.CaseIn, seed int64, emit func(c core.CaseIn, cas, conc, obs any)) error {
	parsed := make([]dcCase, len(cases))
	for i, c := range cases {
		if err := json.Unmarshal(c.Case, &parsed[i]); err != nil {
			return err
		}
	}
	obsOf := make([]map[string]any, len(cases))
	srcOf := make([]string, len(cases))
	const perMod = 40
	type mod struct{ from, to int }
	var mods []mod
	for i := 0; i < len(cases); i += perMod {
		mods = append(mods, mod{i, min(i+perMod, len(cases))})
	}
	errs := make([]error, len(mods))
	var wg sync.WaitGroup
	sem := make(chan struct{}, max(2, runtime.NumCPU()/2))
	for mi := range mods {
		wg.Add(1)
		sem <- struct{}{}
		go func(mi int) {
			defer wg.Done()
			defer func() { <-sem }()
			errs[mi] = dcModule(mods[mi].from, mods[mi].to, parsed, obsOf, srcOf)
		}(mi)
	}
	wg.Wait()
	for _, e := range errs {
		if e != nil {
			return e
		}
	}
	for i, c := range cases {
		emit(c, nil, map[string]any{"source": srcOf[i]}, obsOf[i])
	}
	return nil
}

func dcModule(from, to int, parsed []dcCase, obsOf []map[string]any, srcOf []string) error {
	scratch, err := core.ScratchDir("deepcopy-")
	if err != nil {
		return err
	}
	defer os.RemoveAll(scratch)
	root := filepath.Join(scratch, "m")
	canonSrc, err := os.ReadFile(filepath.Join(harnessDir(), "internal/canon/canon.go"))
	if err != nil {
		return err
	}
	// every second module declares an older language version (generated code may not need a newer language than its module has)
	goVersion := "1.24"
	if (from/max(1, to-from))%2 == 1 {
		goVersion = "1.20"
	}
	files := map[string]string{"go.mod": "module example.com/dc\n\ngo " + goVersion + "\n", "canon/canon.go": string(canonSrc),
		"rt/rt.go": "// Package rt declares the object interface.\npackage rt\n\n// Object can copy itself.\ntype Object interface {\n\tDeepCopyObject() Object\n}\n"}
	var imports, body strings.Builder
	patterns := []string{}
	for j := from; j < to; j++ {
		pkg := fmt.Sprintf("dc%d", j)
		srcOf[j] = dcSource(pkg, parsed[j])
		// "//FILE name.go" lines split a case's source into several files of the package
		chunks := strings.Split(srcOf[j], "//FILE ")
		files[pkg+"/types.go"] = chunks[0]
		for _, ch := range chunks[1:] {
			nl := strings.Index(ch, "\n")
			files[pkg+"/"+ch[:nl]] = "package " + pkg + "\n\n" + ch[nl+1:]
		}
		tn := "S"
		if parsed[j].Variant == "generic" {
			tn = "S[int]"
		}
		files[pkg+"/probes.go"] = fmt.Sprintf("package %s\n\n// Probe hands the probe program a value of the root type.\nfunc Probe() any { return new(%s) }\n", pkg, tn)
		fmt.Fprintf(&imports, "\t%s \"example.com/dc/%s\"\n", pkg, pkg)
		fmt.Fprintf(&body, "\tres[%d] = probe(%s.Probe())\n", j, pkg)
		patterns = append(patterns, "./"+pkg)
	}
	files["cmd/probe/main.go"] = fmt.Sprintf(dcProbeMain, imports.String(), body.String())
	if err := core.WriteFiles(root, files); err != nil {
		return err
	}
	// every case package is generated on its own (a failure in one must not mask the others), twice
	genErr := map[int]string{}
	secondErr := map[int]string{}
	stable := map[int]bool{}
	for j := from; j < to; j++ {
		pkg := fmt.Sprintf("dc%d", j)
		out := filepath.Join(root, pkg, "zz_generated.deepcopy.go")
		r1, err := runGenerators(root, scratch, fmt.Sprintf("a%d", j), []string{"deepcopy"}, []string{"./" + pkg}, false)
		if err != nil {
			return err
		}
		genErr[j] = r1.Err + r1.LoadErr + r1.Panic
		d1 := dcDigest(out)
		keep, _ := os.ReadFile(out)
		r2, err := runGenerators(root, scratch, fmt.Sprintf("b%d", j), []string{"deepcopy"}, []string{"./" + pkg}, false)
		if err != nil {
			return err
		}
		secondErr[j] = r2.Err + r2.LoadErr + r2.Panic
		stable[j] = d1 == dcDigest(out)
		if !stable[j] && keep != nil {
			_ = os.WriteFile(out, keep, 0o644) // judge compilation and behaviour of the FIRST run's output
		}
	}
	// later runs over the whole module in All mode (the cache file comes into play from the second of them on)
	allGenerated := true
	for j := from; j < to; j++ {
		allGenerated = allGenerated && genErr[j] == "" && secondErr[j] == ""
	}
	if allGenerated {
		first := map[int]string{}
		for j := from; j < to; j++ {
			first[j] = dcDigest(filepath.Join(root, fmt.Sprintf("dc%d", j), "zz_generated.deepcopy.go"))
		}
		keepAll := map[int][]byte{}
		for j := from; j < to; j++ {
			keepAll[j], _ = os.ReadFile(filepath.Join(root, fmt.Sprintf("dc%d", j), "zz_generated.deepcopy.go"))
		}
		for k := 0; k < 4; k++ {
			r, err := runGenerators(root, scratch, fmt.Sprintf("all%d_%d", from, k), []string{"deepcopy"}, patterns, true)
			if err != nil {
				return err
			}
			if r.Err+r.LoadErr+r.Panic != "" {
				break
			}
			for j := from; j < to; j++ {
				if dcDigest(filepath.Join(root, fmt.Sprintf("dc%d", j), "zz_generated.deepcopy.go")) != first[j] {
					stable[j] = false
				}
			}
		}
		for j := from; j < to; j++ {
			if !stable[j] && keepAll[j] != nil {
				_ = os.WriteFile(filepath.Join(root, fmt.Sprintf("dc%d", j), "zz_generated.deepcopy.go"), keepAll[j], 0o644)
			}
		}
		_ = os.Remove(filepath.Join(root, "gengo.sum"))
	}
	compileErrs, _ := goBuild(root)
	outputs := map[int]map[string]any{}
	if len(compileErrs) == 0 {
		out, stderr, err := goRun(root, "./cmd/probe")
		if err != nil {
			return fmt.Errorf("deepcopy probe failed although the module builds: %v: %s", err, tail(stderr, 800))
		}
		if err := json.Unmarshal(out, &outputs); err != nil {
			return err
		}
	} else {
		// some package does not compile: probe the others by dropping the broken ones from the probe program
		var imports, body strings.Builder
		for j := from; j < to; j++ {
			pkg := fmt.Sprintf("dc%d", j)
			if len(compileErrs[pkg]) == 0 && genErr[j] == "" {
				fmt.Fprintf(&imports, "\t%s \"example.com/dc/%s\"\n", pkg, pkg)
				fmt.Fprintf(&body, "\tres[%d] = probe(%s.Probe())\n", j, pkg)
			}
		}
		if err := os.WriteFile(filepath.Join(root, "cmd/probe/main.go"), []byte(fmt.Sprintf(dcProbeMain, imports.String(), body.String())), 0o644); err != nil {
			return err
		}
		if out, _, err := goRun(root, "./cmd/probe"); err == nil {
			_ = json.Unmarshal(out, &outputs)
		}
	}
	for j := from; j < to; j++ {
		pkg := fmt.Sprintf("dc%d", j)
		ce := compileErrs[pkg]
		if ce == nil {
			ce = []string{}
		}
		o := map[string]any{"gen_err": genErr[j], "second_run_err": secondErr[j], "stable": stable[j], "compile_errors": ce, "ran": false, "probe_panic": "", "nil_to_nil": false,
			"equal": false, "aliased": []string{}, "leaked": []string{}, "container_paths": 0}
		if got, ok := outputs[j]; ok {
			for k, v := range got {
				o[k] = v
			}
		}
		if data, err := os.ReadFile(filepath.Join(root, pkg, "zz_generated.deepcopy.go")); err == nil {
			o["generated"] = tail(string(data), 1500)
		}
		obsOf[j] = o
	}
	return nil
}

func (deepcopyFam) Rand(n int, rng *rand.Rand, emit func(cas any)) error {
	kinds := make([]string, 0, len(dcFieldSrc))
	for k := range dcFieldSrc {
		kinds = append(kinds, k)
	}
	sort.Strings(kinds)
	for i := 0; i < n; i++ {
		variant := []string{"plain", "generic", "interfaces", "typeTagged"}[rng.IntN(4)]
		k := 4 + rng.IntN(8)
		perm := rng.Perm(len(kinds))
		sel := []string{}
		for _, x := range perm[:k] {
			if kinds[x] == "typeParam" {
				continue
			}
			sel = append(sel, kinds[x])
		}
		if variant == "generic" {
			sel = append(sel, "typeParam")
		}
		sort.Strings(sel)
		emit(map[string]any{"fields": sel, "variant": variant})
	}
	return nil
}
