package fam

import (
	"encoding/json"
	"fmt"
	"math/rand/v2"
	"os"
	"os/exec"
	"path/filepath"
	"reflect"
	"strings"
	"sync"
	"sync/atomic"
	"unicode"
	"unicode/utf8"

	"golang.org/x/text/cases"
	"golang.org/x/text/language"

	"github.com/octohelm/gengo/pkg/camelcase"
	"github.com/octohelm/gengo/pkg/gengo"

	"verif/harness/internal/core"
)

// camel (C19): camelcase.Split and the six converters.
//
// case: {"cls": ["l","u","d","o",...]}  abstract rune classes (TLC), or {"bytes":[...]} (rand)
// conc: {"input": bytes, "valid": bool, "cls": classes per rune (computed with package unicode)}
// obs : {"panicked","panic_msg","panic_site","words": [bytes...], "lens": runes per word, "again": second call equal,
//
//	"conv_panicked","conv_site","conv_again","conv_alias_equal"}
type camelFam struct{}

func init() { core.Register("camel", camelFam{}) }

var camelPools = map[string][][]rune{
	// per class: ASCII, 2-byte, 3/4-byte pools, and letters whose other case has another UTF-8 width (U+0250/U+2C6F ..: 2 bytes
	// lower, 3 bytes upper; long s, dotless i: capital 1 byte; Kelvin sign, dotted capital I: lower form shorter)
	"l": {[]rune("abcxyz"), []rune("éßωяµ"), []rune("ａｚ𝐚ᴀ"), []rune("\u0250\u026b\u027d\u023f\u017f\u0131")},
	"u": {[]rune("ABCXYZ"), []rune("ÉΩЯÜ"), []rune("ＡＺ𝐀Ⴀ"), []rune("\u2c6f\u2c62\u2c64\u2c7e\u212a\u0130")},
	"d": {[]rune("0159"), []rune("٣۵߂"), []rune("３９𝟗"), []rune("\u0663\uff19")},
	"o": {[]rune("_- .$/"), []rune("·ǅ́§ª"), []rune("世€😀 ⅷ"), []rune("_-\u01c5")},
}

func classOf(r rune) string {
	switch {
	case unicode.IsLower(r):
		return "l"
	case unicode.IsUpper(r):
		return "u"
	case unicode.IsDigit(r):
		return "d"
	}
	return "o"
}

func init() {
	for cls, pools := range camelPools {
		for _, p := range pools {
			for _, r := range p {
				if classOf(r) != cls {
					panic(fmt.Sprintf("camel pool: %q is %s not %s", r, classOf(r), cls))
				}
			}
		}
	}
}

type camelCase struct {
	Cls   []string `json:"cls"`
	Bytes []int    `json:"bytes,omitempty"`
	Conc  []string `json:"conc,omitempty"` // concurrent round: the converters are called on these inputs from many goroutines
}

type camelObs struct {
	core.Panic
	Words          [][]int `json:"words"`
	Lens           []int   `json:"lens"`
	Again          bool    `json:"again"`
	ConvPanicked   bool    `json:"conv_panicked"`
	ConvSite       string  `json:"conv_site"`
	ConvAgain      bool    `json:"conv_again"`
	ConvAliasEqual bool    `json:"conv_alias_equal"`
	// beyond C19 (bin/extras, family caseconv): what each converter answered, and - per word Split returned - the facts the
	// converter model composes, computed with package unicode / strings / x/text directly (never through camelcase)
	ConvOut [][]int    `json:"conv_out"`
	Forms   []wordForm `json:"forms"`
}

type wordForm struct {
	Drop  bool  `json:"drop"` // a one-byte word whose byte, read as a rune, is graphic but neither a digit nor a letter
	Lower []int `json:"lower"`
	Upper []int `json:"upper"`
	Title []int `json:"title"`
}

func formsOf(words []string) []wordForm {
	out := []wordForm{}
	for _, w := range words {
		f := wordForm{Lower: core.Bytes(strings.ToLower(w)), Upper: core.Bytes(strings.ToUpper(w)), Title: core.Bytes(cases.Title(language.Und).String(w))}
		if len(w) == 1 {
			c := rune(w[0])
			f.Drop = unicode.IsGraphic(c) && !unicode.IsDigit(c) && !unicode.IsLetter(c)
		}
		out = append(out, f)
	}
	return out
}

var camelConvs = []func(string) string{
	camelcase.UpperSnakeCase, camelcase.LowerSnakeCase, camelcase.UpperKebabCase,
	camelcase.LowerKebabCase, camelcase.UpperCamelCase, camelcase.LowerCamelCase,
}

var camelAliases = []func(string) string{
	gengo.UpperSnakeCase, gengo.LowerSnakeCase, gengo.UpperKebabCase,
	gengo.LowerKebabCase, gengo.UpperCamelCase, gengo.LowerCamelCase,
}

func camelRun(input string) camelObs {
	o := camelObs{Words: [][]int{}, Lens: []int{}, ConvOut: [][]int{}, Forms: []wordForm{}}
	var w1, w2 []string
	o.Panic = core.Try(func() { w1 = camelcase.Split(input) })
	if !o.Panicked {
		p2 := core.Try(func() { w2 = camelcase.Split(input) })
		o.Again = !p2.Panicked && reflect.DeepEqual(w1, w2)
		for _, w := range w1 {
			o.Words = append(o.Words, core.Bytes(w))
			o.Lens = append(o.Lens, utf8.RuneCountInString(w))
		}
		o.Forms = formsOf(w1)
	}
	o.ConvAgain, o.ConvAliasEqual = true, true
	for i, cv := range camelConvs {
		var a, b, c string
		p := core.Try(func() { a = cv(input); b = cv(input); c = camelAliases[i](input) })
		if p.Panicked {
			o.ConvPanicked = true
			o.ConvSite = p.Site
			o.ConvAgain, o.ConvAliasEqual = false, false
			break
		}
		if a != b {
			o.ConvAgain = false
		}
		if a != c {
			o.ConvAliasEqual = false
		}
		o.ConvOut = append(o.ConvOut, core.Bytes(a))
	}
	return o
}

func camelConc(input string) map[string]any {
	valid := utf8.ValidString(input)
	cls := []string{}
	if valid {
		for _, r := range input {
			cls = append(cls, classOf(r))
		}
	}
	return map[string]any{"input": core.Bytes(input), "valid": valid, "cls": cls}
}

func (camelFam) Exec(c core.CaseIn, rng *rand.Rand, emit func(cas, conc, obs any)) error {
	var cc camelCase
	if err := json.Unmarshal(c.Case, &cc); err != nil {
		return err
	}
	if cc.Conc != nil {
		// pure functions of their input: the answers must not depend on who else is calling
		want := make([][]string, len(cc.Conc))
		for i, in := range cc.Conc {
			for _, cv := range camelConvs {
				want[i] = append(want[i], cv(in))
			}
		}
		var bad, panics atomic.Int64
		var wg sync.WaitGroup
		for g := 0; g < 12; g++ {
			wg.Add(1)
			go func(g int) {
				defer wg.Done()
				for round := 0; round < 150; round++ {
					for k := range cc.Conc {
						i := (k + g + round) % len(cc.Conc)
						p := core.Try(func() {
							for j, cv := range camelConvs {
								if cv(cc.Conc[i]) != want[i][j] {
									bad.Add(1)
								}
							}
						})
						if p.Panicked {
							panics.Add(1)
						}
					}
				}
			}(g)
		}
		wg.Wait()
		o := camelRun("")
		o.ConvPanicked = o.ConvPanicked || panics.Load() > 0
		o.ConvAgain = o.ConvAgain && bad.Load() == 0
		if panics.Load() > 0 {
			o.ConvSite = "concurrent callers"
		}
		emit(map[string]any{"cls": []string{}, "conc": cc.Conc}, camelConc(""), o)
		return nil
	}
	if cc.Bytes != nil {
		in := core.FromBytes(cc.Bytes)
		conc := camelConc(in)
		emit(map[string]any{"cls": conc["cls"]}, conc, camelRun(in))
		return nil
	}
	// four concretisations per class string: ASCII, 2-byte, 3/4-byte runes, letters that change width with their case
	for variant := 0; variant < 4; variant++ {
		rs := make([]rune, 0, len(cc.Cls))
		for _, cl := range cc.Cls {
			pools, ok := camelPools[cl]
			if !ok {
				return fmt.Errorf("unknown class %q", cl)
			}
			p := pools[variant]
			rs = append(rs, p[rng.IntN(len(p))])
		}
		in := string(rs)
		emit(map[string]any{"cls": cc.Cls}, camelConc(in), camelRun(in))
		if len(cc.Cls) == 0 {
			break
		}
	}
	return nil
}

// ExecAll: every case as Exec does it, and then - "pure functions of their input" - every input once more in a FRESH process
// that meets the inputs in the opposite order: an answer that depends on what the process converted before (a memo keyed too
// coarsely, a shared scratch buffer) differs between the two processes.
func (f camelFam) ExecAll(cases []core.CaseIn, seed int64, emit func(c core.CaseIn, cas, conc, obs any)) error {
	type rec struct {
		c         core.CaseIn
		cas, conc any
		obs       camelObs
	}
	var recs []rec
	for _, c := range cases {
		rng := core.RNG(seed, uint64(c.ID)*2654435761+uint64(len(c.Src)))
		if err := f.Exec(c, rng, func(cas, conc, obs any) { recs = append(recs, rec{c, cas, conc, obs.(camelObs)}) }); err != nil {
			return err
		}
	}
	inputs := make([][]int, len(recs))
	for i, r := range recs {
		inputs[i] = r.conc.(map[string]any)["input"].([]int)
	}
	dir, err := core.ScratchDir("camel-")
	if err != nil {
		return err
	}
	defer os.RemoveAll(dir)
	in, out := filepath.Join(dir, "in.json"), filepath.Join(dir, "out.json")
	b, _ := json.Marshal(inputs)
	if err := os.WriteFile(in, b, 0o644); err != nil {
		return err
	}
	cmd := exec.Command(gvhSelf(), "child", "camel-conv", in, out)
	if msg, err := cmd.CombinedOutput(); err != nil {
		return fmt.Errorf("camel-conv child: %v: %s", err, msg)
	}
	data, err := os.ReadFile(out)
	if err != nil {
		return err
	}
	var other [][][]int // per input: the six answers, or an empty list if a converter panicked there
	if err := json.Unmarshal(data, &other); err != nil {
		return err
	}
	if len(other) != len(recs) {
		return fmt.Errorf("camel-conv child answered %d of %d inputs", len(other), len(recs))
	}
	for i := range recs {
		o := &recs[i].obs
		if !o.ConvPanicked && len(o.ConvOut) == 6 && len(other[i]) == 6 && !reflect.DeepEqual(o.ConvOut, other[i]) {
			o.ConvAgain = false
			o.ConvSite = "another process, other call order"
		}
		if !o.ConvPanicked && len(o.ConvOut) == 6 && len(other[i]) == 0 {
			o.ConvPanicked = true
			o.ConvSite = "another process, other call order"
		}
		emit(recs[i].c, recs[i].cas, recs[i].conc, *o)
	}
	return nil
}

func init() {
	core.Children["camel-conv"] = func(args []string) error {
		if len(args) != 2 {
			return fmt.Errorf("camel-conv <in> <out>")
		}
		data, err := os.ReadFile(args[0])
		if err != nil {
			return err
		}
		var inputs [][]int
		if err := json.Unmarshal(data, &inputs); err != nil {
			return err
		}
		res := make([][][]int, len(inputs))
		for i := len(inputs) - 1; i >= 0; i-- {
			s := core.FromBytes(inputs[i])
			outs := [][]int{}
			p := core.Try(func() {
				for _, cv := range camelConvs {
					outs = append(outs, core.Bytes(cv(s)))
				}
			})
			if p.Panicked {
				outs = [][]int{}
			}
			res[i] = outs
		}
		b, _ := json.Marshal(res)
		return os.WriteFile(args[1], b, 0o644)
	}
}

func (camelFam) Rand(n int, rng *rand.Rand, emit func(cas any)) error {
	// fixed adversarial inputs first, then random strings over all of Unicode and raw bytes
	fixed := []string{"", "_id", "-x", ".hidden", " a", "__", "a__b", "\xff", "a\xffb", "\xc0\x80", "ID", "userID", "HTTPServer2Go",
		"ǅx", "́a", "Á", "Ⅷ", "ⅷ", "ᾈ", "ß", "İ", "ı", "ſ", "K", "9Lives", "x9Y", "９ａ", " ", "\x00", "a\x00B"}
	for _, s := range fixed {
		emit(map[string]any{"bytes": core.Bytes(s)})
	}
	emit(map[string]any{"cls": []string{}, "conc": []string{"user_id", "HTTPServer2Go", "_leadingUnderscore", "größeÜber", "a_b_c_d", "XMLHttpRequest", "x", "ID", "some-kebab-case", "with space"}})
	for i := 0; i < n; i++ {
		ln := rng.IntN(24)
		var b []byte
		switch rng.IntN(4) {
		case 0: // raw bytes (often invalid UTF-8)
			b = make([]byte, ln)
			for j := range b {
				b[j] = byte(rng.IntN(256))
			}
		case 1: // pool runes, long
			for j := 0; j < ln*3; j++ {
				cl := []string{"l", "u", "d", "o"}[rng.IntN(4)]
				p := camelPools[cl][rng.IntN(3)]
				b = utf8.AppendRune(b, p[rng.IntN(len(p))])
			}
		default: // any valid rune
			for j := 0; j < ln; j++ {
				var r rune
				for {
					switch rng.IntN(3) {
					case 0:
						r = rune(rng.IntN(0x80))
					case 1:
						r = rune(rng.IntN(0x3000))
					default:
						r = rune(rng.IntN(0x110000))
					}
					if utf8.ValidRune(r) {
						break
					}
				}
				b = utf8.AppendRune(b, r)
			}
		}
		emit(map[string]any{"bytes": core.Bytes(string(b))})
	}
	return nil
}
