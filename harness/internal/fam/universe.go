package fam

import (
	"encoding/json"
	"fmt"
	"go/token"
	"go/types"
	"math/rand/v2"
	"os"
	"os/exec"
	"path/filepath"
	"sort"
	"strings"

	gengotypes "github.com/octohelm/gengo/pkg/types"

	"verif/harness/internal/core"
)

// universe (C13): the loaded universe against go/types' own view.
//
// case: {"kind":"synthetic","features":[...]} | {"kind":"corpus"}  (one corpus case expands to one line per loaded package)
// obs : see universeObserve
type universeFam struct{}

func init() { core.Register("universe", universeFam{}) }

type universeCase struct {
	Kind     string   `json:"kind"`
	Features []string `json:"features"`
}

var featureSrc = map[string]string{
	"pkg_type":                 "type A struct{ X int }\n",
	"generic_type":             "type G[T any] struct{ V T }\n",
	"local_shadow_type":        "func fLocalShadow() {\n\ttype A struct{ Q string }\n\tvar _ A\n}\n",
	"local_only_type":          "func fLocalOnly() {\n\ttype L int\n\tvar _ L\n}\n",
	"typeparam_shadow":         "func fTP[A any](x A) A { return x }\n",
	"typeparam_generic_shadow": "func fTPG[G any, T any](x G, y T) {}\n",
	"local_const_shadow":       "func fLC() {\n\tconst C = 2\n\t_ = C\n}\n",
	"pkg_const":                "const C = 1\n",
	"pkg_func":                 "func F() int { return 1 }\n",
	"local_funcvar":            "func fFV() {\n\tF := func() int { return 2 }\n\t_ = F\n}\n",
	"method_value":             "func (a A) M1() {}\n",
	"method_pointer":           "func (a *A) M2() {}\n",
	// methods declared through an alias of the type / of the pointer to it are methods of the type all the same
	"method_alias_value":     "type AV = A\n\nfunc (a AV) M3() {}\n",
	"method_alias_pointer":   "type AP = *A\n\nfunc (a AP) M4() {}\n",
	"generic_method_value":   "func (g G[T]) GM1() T { return g.V }\n",
	"generic_method_pointer": "func (g *G[T]) GM2() {}\n",
	"grouped_types":          "type (\n\tX int\n\tY string\n)\n\nfunc (X) MX() {}\n\nfunc (y *Y) MY() {}\n",
	"pkg_alias":              "type AL = int\n",
	"imports_chain":          "var _ h1.H\n",
	"init_func":              "func init() {}\n\nfunc init() {}\n",
	"blank_func":             "func _() {}\n",
	"interface_type":         "type I interface{ IM() }\n",
	"grouped_consts":         "const (\n\tK1 = iota\n\tK2\n)\n",
	"local_alias_shadow":     "func fLA() {\n\ttype A = int\n\tvar _ A\n}\n",
	// a module that a replace directive maps to a sibling directory, and a sub-package of it
	"imports_replaced": "var _ dep.D\n\nvar _ depsub.DS\n",
	// local types named like package-level types that have methods (plain and generic)
	"local_shadow_generic": "func fLocalShadowG() {\n\ttype G struct{ Q string }\n\tvar _ G\n\tif true {\n\t\ttype A int\n\t\tvar _ A\n\t}\n}\n",
}

var featureNeeds = map[string]string{"method_value": "pkg_type", "method_pointer": "pkg_type", "method_alias_value": "pkg_type", "method_alias_pointer": "pkg_type", "generic_method_value": "generic_type", "generic_method_pointer": "generic_type"}

func synthSource(pkg string, feats []string) (string, error) {
	set := map[string]bool{}
	for _, f := range feats {
		if _, ok := featureSrc[f]; !ok {
			return "", fmt.Errorf("unknown feature %q", f)
		}
		set[f] = true
		if n, ok := featureNeeds[f]; ok {
			set[n] = true
		}
	}
	names := make([]string, 0, len(set))
	for f := range set {
		names = append(names, f)
	}
	sort.Strings(names)
	var b strings.Builder
	fmt.Fprintf(&b, "// A header comment: positions in it lie in this file like any other.\n\npackage %s\n\n", pkg)
	if set["imports_chain"] {
		b.WriteString("import \"example.com/u/h1\"\n\n")
	}
	if set["imports_replaced"] {
		b.WriteString("import (\n\t\"example.com/dep\"\n\tdepsub \"example.com/dep/sub\"\n)\n\n")
	}
	for _, f := range names {
		b.WriteString(featureSrc[f])
		b.WriteString("\n")
	}
	b.WriteString("// A comment after the last declaration.\n")
	return b.String(), nil
}

func (universeFam) Exec(c core.CaseIn, rng *rand.Rand, emit func(cas, conc, obs any)) error {
	return fmt.Errorf("universe is a batch family")
}

func sortedSet(m map[string]bool) []string {
	out := make([]string, 0, len(m))
	for k := range m {
		out = append(out, k)
	}
	sort.Strings(out)
	return out
}

// preProbe: results of locateImportedProbe taken right after Load, before anything else was asked of the universe (corpus)
var preProbe = map[string][]string{}

func locateImportedProbe(u *gengotypes.Universe, p gengotypes.Package) []string {
	bad := []string{}
	for _, ip := range p.Pkg().Imports() {
		for _, n := range ip.Scope().Names() {
			if obj := ip.Scope().Lookup(n); obj != nil && obj.Pos().IsValid() {
				got := u.LocateInPackage(obj.Pos())
				if want := u.Package(ip.Path()); want != nil && want.Module() != nil {
					if got == nil || got.Pkg().Path() != ip.Path() {
						bad = append(bad, ip.Path()+"."+n)
					}
				}
				break
			}
		}
	}
	return bad
}

func universeObserve(u *gengotypes.Universe, p gengotypes.Package) map[string]any {
	o := map[string]any{"types": []string{}, "scope_types": []string{}, "consts": []string{}, "scope_consts": []string{}, "funcs": []string{}, "scope_funcs": []string{},
		"identity_bad": []string{}, "methods": []any{}, "imports_nil": []string{}, "imports_other": []string{}, "imports_keys": []string{}, "imports_want": []string{},
		"in_module": false, "locate_bad": []string{}, "locate_imported_bad": []string{}, "srcdir_ok": true, "path": p.Pkg().Path()}
	pn := core.Try(func() {
		tp := p.Pkg()
		// positions reached through the type checker's view of the IMPORTED packages - before this harness has asked the
		// universe for those packages: LocateInPackage must know every loaded package, requested or not
		locImpBad, done := preProbe[tp.Path()]
		if !done {
			locImpBad = locateImportedProbe(u, p)
		}
		o["locate_imported_bad"] = locImpBad
		scope := tp.Scope()
		st, sc, sf := map[string]bool{}, map[string]bool{}, map[string]bool{}
		identityBad := []string{}
		methods := []any{}
		for _, name := range scope.Names() {
			switch obj := scope.Lookup(name).(type) {
			case *types.TypeName:
				st[name] = true
				if p.Type(name) != obj {
					identityBad = append(identityBad, "type:"+name)
				}
				if named, ok := obj.Type().(*types.Named); ok && !obj.IsAlias() {
					if _, isIface := named.Underlying().(*types.Interface); !isIface {
						wantAll, wantVal := []string{}, []string{}
						for i := 0; i < named.NumMethods(); i++ {
							m := named.Method(i)
							wantAll = append(wantAll, m.Name())
							if _, ptr := types.Unalias(m.Type().(*types.Signature).Recv().Type()).(*types.Pointer); !ptr {
								wantVal = append(wantVal, m.Name())
							}
						}
						// asked in every order: all, value receivers, all again, value receivers again - the answers must not depend on it
						gotAll, gotVal := []string{}, []string{}
						_ = p.MethodsOf(named, true)
						_ = p.MethodsOf(named, false)
						for _, m := range p.MethodsOf(named, true) {
							gotAll = append(gotAll, m.Name())
						}
						for _, m := range p.MethodsOf(named, false) {
							gotVal = append(gotVal, m.Name())
						}
						sort.Strings(wantAll)
						sort.Strings(wantVal)
						sort.Strings(gotAll)
						sort.Strings(gotVal)
						if len(wantAll)+len(gotAll) > 0 {
							methods = append(methods, map[string]any{"type": name, "want_all": wantAll, "want_value": wantVal, "got_all": gotAll, "got_value": gotVal})
						}
					}
				}
			case *types.Const:
				sc[name] = true
				if p.Constant(name) != obj {
					identityBad = append(identityBad, "const:"+name)
				}
			case *types.Func:
				sf[name] = true
				if p.Function(name) != obj {
					identityBad = append(identityBad, "func:"+name)
				}
				// types declared inside the function body: they have no methods, whatever they are called
				var walk func(sc *types.Scope)
				walk = func(sc *types.Scope) {
					for _, ln := range sc.Names() {
						if tn, ok := sc.Lookup(ln).(*types.TypeName); ok && !tn.IsAlias() {
							named, ok := tn.Type().(*types.Named)
							if _, isIface := tn.Type().Underlying().(*types.Interface); ok && !isIface {
								gotAll, gotVal := []string{}, []string{}
								for _, m := range p.MethodsOf(named, false) {
									gotVal = append(gotVal, m.Name())
								}
								for _, m := range p.MethodsOf(named, true) {
									gotAll = append(gotAll, m.Name())
								}
								methods = append(methods, map[string]any{"type": "local:" + name + "." + ln, "want_all": []string{}, "want_value": []string{}, "got_all": gotAll, "got_value": gotVal})
							}
						}
					}
					for i := 0; i < sc.NumChildren(); i++ {
						walk(sc.Child(i))
					}
				}
				if obj.Scope() != nil {
					walk(obj.Scope())
				}
			}
		}
		gt, gc, gf := map[string]bool{}, map[string]bool{}, map[string]bool{}
		for n := range p.Types() {
			gt[n] = true
		}
		for n := range p.Constants() {
			gc[n] = true
		}
		for n := range p.Functions() {
			gf[n] = true
		}
		o["types"], o["scope_types"] = sortedSet(gt), sortedSet(st)
		o["consts"], o["scope_consts"] = sortedSet(gc), sortedSet(sc)
		o["funcs"], o["scope_funcs"] = sortedSet(gf), sortedSet(sf)
		o["identity_bad"] = identityBad
		o["methods"] = methods
		// imports
		impNil, impOther, impKeys, impWant := []string{}, []string{}, []string{}, []string{}
		imps := p.Imports()
		for _, k := range core.SortedKeys(imps) {
			impKeys = append(impKeys, k)
			if imps[k] == nil {
				impNil = append(impNil, k)
			} else if imps[k] != u.Package(k) {
				impOther = append(impOther, k)
			}
		}
		for _, ip := range tp.Imports() {
			impWant = append(impWant, ip.Path())
		}
		sort.Strings(impWant)
		o["imports_nil"], o["imports_other"], o["imports_keys"], o["imports_want"] = impNil, impOther, impKeys, impWant
		// location
		if p.Module() != nil {
			o["in_module"] = true
			locBad := []string{}
			srcOK := true
			for _, f := range p.Files() {
				fn := p.FileSet().Position(f.Package).Filename
				if !strings.HasPrefix(fn, p.Module().Dir+string(filepath.Separator)) {
					continue // a file cgo generated into the build cache: not one of the package's source files
				}
				// every position of the file counts: its first byte (a licence header, a build constraint), the package clause,
				// every comment (package documentation, the comment after the last declaration), its last byte
				probes := []token.Pos{f.FileStart, f.Package, f.End() - 1, f.FileEnd - 1}
				for _, cg := range f.Comments {
					probes = append(probes, cg.Pos())
				}
				for _, pos := range probes {
					if !pos.IsValid() {
						continue
					}
					if !strings.HasPrefix(p.FileSet().Position(pos).Filename, p.Module().Dir+string(filepath.Separator)) {
						continue // (cgo: the compiled form of a file lies in the build cache until its first //line directive)
					}
					if got := u.LocateInPackage(pos); got != p {
						locBad = append(locBad, fn)
						break
					}
				}
				if filepath.Dir(fn) != p.SourceDir() {
					srcOK = false
				}
			}
			o["locate_bad"] = locBad
			o["srcdir_ok"] = srcOK
		}
	})
	o["panicked"] = pn.Panicked
	o["panic_msg"] = pn.Msg
	return o
}

func (universeFam) ExecAll(cases []core.CaseIn, seed int64, emit func(c core.CaseIn, cas, conc, obs any)) error {
	var synth []core.CaseIn
	var synthCases []universeCase
	for _, c := range cases {
		var uc universeCase
		if err := json.Unmarshal(c.Case, &uc); err != nil {
			return err
		}
		if uc.Kind == "corpus" {
			repo := os.Getenv("VERIF_REPO")
			if repo == "" {
				repo = "/repo"
			}
			restore := core.Silence()
			u, err := gengotypes.Load([]string{"./..."}, gengotypes.WithDir(repo))
			restore()
			if err != nil {
				return fmt.Errorf("load corpus: %w", err)
			}
			seen := map[string]bool{}
			var walk func(p gengotypes.Package)
			var order []gengotypes.Package
			walk = func(p gengotypes.Package) {
				if p == nil || seen[p.Pkg().Path()] {
					return
				}
				seen[p.Pkg().Path()] = true
				order = append(order, p)
				for _, ip := range p.Pkg().Imports() {
					walk(u.Package(ip.Path()))
				}
			}
			for path := range u.LocalPkgPaths() {
				if p := u.Package(path); p != nil {
					preProbe[path] = locateImportedProbe(u, p)
				}
			}
			for path := range u.LocalPkgPaths() {
				walk(u.Package(path))
			}
			sort.Slice(order, func(i, j int) bool { return order[i].Pkg().Path() < order[j].Pkg().Path() })
			for _, p := range order {
				emit(c, map[string]any{"kind": "corpus", "features": []string{}, "pkg": p.Pkg().Path()}, map[string]any{}, universeObserve(u, p))
			}
			continue
		}
		synth = append(synth, c)
		synthCases = append(synthCases, uc)
	}
	const perMod = 60
	for i := 0; i < len(synth); i += perMod {
		dir, err := core.ScratchDir("universe-")
		if err != nil {
			return err
		}
		files := map[string]string{"u/go.mod": "module example.com/u\n\ngo 1.24\n\nrequire example.com/dep v0.0.0\n\nreplace example.com/dep => ../dep\n",
			"u/h1/h1.go":     "package h1\n\nimport \"example.com/u/h2\"\n\ntype H struct{ V h2.H2 }\n",
			"u/h2/h2.go":     "package h2\n\nimport \"example.com/u/h3\"\n\ntype H2 struct{ W h3.H3 }\n",
			"u/h3/h3.go":     "package h3\n\ntype H3 int\n",
			"dep/go.mod":     "module example.com/dep\n\ngo 1.24\n",
			"dep/dep.go":     "package dep\n\ntype D struct{}\n\nfunc (D) DM() {}\n",
			"dep/sub/sub.go": "package sub\n\ntype DS int\n\nfunc (*DS) DSM() {}\n"}
		srcs := map[int]string{}
		for j := i; j < i+perMod && j < len(synth); j++ {
			src, err := synthSource(fmt.Sprintf("s%d", j), synthCases[j].Features)
			if err != nil {
				return err
			}
			srcs[j] = src
			files[fmt.Sprintf("u/s%d/s.go", j)] = src
		}
		if i == 0 && cgoUsable() {
			// a package whose ONLY file imports "C" (a cgo wrapper): what go/packages compiles of it lies in the build cache, its
			// source directory is where w.go is
			files["u/cgow/w.go"] = "// Package cgow wraps a C constant.\npackage cgow\n\n/*\n#define ANSWER 42\n*/\nimport \"C\"\n\n// W is declared in a file that imports C.\ntype W struct{ N int }\n\n// Answer returns the constant.\nfunc Answer() int { return int(C.ANSWER) }\n"
		}
		if err := core.WriteFiles(dir, files); err != nil {
			return err
		}
		restore := core.Silence()
		u, err := gengotypes.Load([]string{"./..."}, gengotypes.WithDir(filepath.Join(dir, "u")))
		restore()
		if err != nil {
			os.RemoveAll(dir)
			return fmt.Errorf("load synthetic universe: %w", err)
		}
		for j := i; j < i+perMod && j < len(synth); j++ {
			p := u.Package(fmt.Sprintf("example.com/u/s%d", j))
			if p == nil {
				os.RemoveAll(dir)
				return fmt.Errorf("synthetic package s%d not loaded", j)
			}
			emit(synth[j], map[string]any{"kind": "synthetic", "features": synthCases[j].Features, "pkg": p.Pkg().Path()}, map[string]any{"source": srcs[j]}, universeObserve(u, p))
		}
		// the helper chain is part of the universe too (registered through imports only when a package uses it)
		for _, h := range []string{"example.com/u/h1", "example.com/u/h2", "example.com/u/h3", "example.com/dep", "example.com/dep/sub", "example.com/u/cgow"} {
			if p := u.Package(h); p != nil {
				emit(synth[i], map[string]any{"kind": "synthetic", "features": []string{"helper"}, "pkg": p.Pkg().Path()}, map[string]any{}, universeObserve(u, p))
			}
		}
		os.RemoveAll(dir)
	}
	return nil
}

// cgoUsable: the go command would compile a file that imports "C" (cgo switched on and a C compiler at hand).
func cgoUsable() bool {
	out, err := exec.Command("go", "env", "CGO_ENABLED", "CC").Output()
	if err != nil {
		return false
	}
	f := strings.Fields(string(out))
	if len(f) < 2 || f[0] != "1" {
		return false
	}
	_, err = exec.LookPath(f[1])
	return err == nil
}

func (universeFam) Rand(n int, rng *rand.Rand, emit func(cas any)) error {
	emit(map[string]any{"kind": "corpus", "features": []string{}})
	feats := make([]string, 0, len(featureSrc))
	for f := range featureSrc {
		feats = append(feats, f)
	}
	sort.Strings(feats)
	for i := 0; i < n; i++ {
		k := 4 + rng.IntN(10)
		perm := rng.Perm(len(feats))
		sel := []string{}
		for _, x := range perm[:k] {
			sel = append(sel, feats[x])
		}
		sort.Strings(sel)
		emit(map[string]any{"kind": "synthetic", "features": sel})
	}
	return nil
}
