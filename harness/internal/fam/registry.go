package fam

import (
	"encoding/json"
	"fmt"
	"go/types"
	"math/rand/v2"
	"strings"

	"github.com/octohelm/gengo/pkg/gengo"

	"verif/harness/internal/core"
)

// registry (extra, not one of the listed properties): gengo.Register / gengo.GetRegisteredGenerators.
//
// case: {"hist":[{"op":"register","name","id"} | {"op":"get","names":[...]} | {"op":"getall"}]}
// obs : {"panicked","answers":[ [] | [ids...] | [[name,id]...] ]}
// The registry is process-wide: every history uses names of its own (prefix h<case id>:), GetAll answers are
// restricted to that prefix.
type registryFam struct{}

func init() { core.Register("registry", registryFam{}) }

type regOp struct {
	Op    string   `json:"op"`
	Name  string   `json:"name"`
	ID    int      `json:"id"`
	Names []string `json:"names"`
}

type regGen struct {
	name string
	id   int
}

func (g *regGen) Name() string                                       { return g.name }
func (g *regGen) GenerateType(c gengo.Context, t *types.Named) error { return nil }

func (registryFam) Exec(c core.CaseIn, rng *rand.Rand, emit func(cas, conc, obs any)) error {
	var rc struct {
		Hist []regOp `json:"hist"`
	}
	if err := json.Unmarshal(c.Case, &rc); err != nil {
		return err
	}
	prefix := fmt.Sprintf("h%d:", c.ID)
	answers := make([]any, len(rc.Hist))
	pn := core.Try(func() {
		for k, op := range rc.Hist {
			switch op.Op {
			case "register":
				gengo.Register(&regGen{name: prefix + op.Name, id: op.ID})
				answers[k] = []int{}
			case "get":
				names := make([]string, len(op.Names))
				for i, n := range op.Names {
					names[i] = prefix + n
				}
				ids := []int{}
				if len(names) > 0 { // no names means "all": that is the getall operation
					for _, g := range gengo.GetRegisteredGenerators(names...) {
						if rg, ok := g.(*regGen); ok {
							ids = append(ids, rg.id)
						} else {
							ids = append(ids, -1)
						}
					}
				}
				answers[k] = ids
			case "getall":
				pairs := [][]any{}
				for _, g := range gengo.GetRegisteredGenerators() {
					if rg, ok := g.(*regGen); ok && strings.HasPrefix(rg.name, prefix) {
						pairs = append(pairs, []any{strings.TrimPrefix(rg.name, prefix), rg.id})
					}
				}
				answers[k] = pairs
			}
		}
	})
	for k := range answers {
		if answers[k] == nil {
			answers[k] = []int{}
		}
	}
	emit(nil, map[string]any{"prefix": prefix}, map[string]any{"panicked": pn.Panicked, "panic_msg": pn.Msg, "answers": answers})
	return nil
}

func (registryFam) Rand(n int, rng *rand.Rand, emit func(cas any)) error { return nil }
