package fam

import (
	"encoding/json"
	"fmt"
	"go/ast"
	"go/build"
	"go/parser"
	"go/token"
	"math/rand/v2"
	"os"
	"path/filepath"
	"runtime"
	"sort"
	"strings"
	"sync"

	"verif/harness/internal/core"
)

// runtimedoc (C16): the real runtimedoc generator over generated packages, probed at run time.
//
// case: {"kind", "doc":[classes], "fieldpat", "fdoc":[classes]}
// conc: {"exported","kind","name","doc":[{"class","text","stripped"}], "fields":[{"name","exported","ftype","embedded","doc":[...],"inner_name","inner_doc":[...]}]}
// obs : {"gen_err","compile_errors","has_method","type_doc":{"lines","ok"},"field_answers":[...],"embedded_answers":[...],"unknown_answer"}
type runtimedocFam struct{}

func init() { core.Register("runtimedoc", runtimedocFam{}) }

type rdCase struct {
	Kind     string   `json:"kind"`
	Doc      []string `json:"doc"`
	FieldPat string   `json:"fieldpat"`
	FDoc     []string `json:"fdoc"`
}

type rdLine struct {
	Class    string `json:"class"`
	Text     string `json:"text"`
	Stripped string `json:"stripped"`
}

type rdField struct {
	Name      string   `json:"name"`
	Exported  bool     `json:"exported"`
	FType     string   `json:"ftype"`
	Embedded  string   `json:"embedded"`
	Doc       []rdLine `json:"doc"`
	InnerName string   `json:"inner_name"`
	InnerDoc  []rdLine `json:"inner_doc"`
	typeSrc   string
}

type rdConc struct {
	Exported bool      `json:"exported"`
	Kind     string    `json:"kind"`
	Name     string    `json:"name"`
	Doc      []rdLine  `json:"doc"`
	Fields   []rdField `json:"fields"`
	Source   string    `json:"source"`
}

func (runtimedocFam) Exec(c core.CaseIn, rng *rand.Rand, emit func(cas, conc, obs any)) error {
	return fmt.Errorf("runtimedoc is a batch family")
}

func rdText(class, owner string, j, n int) rdLine {
	var t string
	switch class {
	case "plain":
		t = fmt.Sprintf("plain text of %d line %d.", j, n)
	case "quotes":
		t = fmt.Sprintf("say \"hi\" and 'x' %d/%d", j, n)
	case "backslash":
		t = fmt.Sprintf("path C:\\dir\\new\\t %d/%d \\", j, n)
	case "backquote":
		t = fmt.Sprintf("uses `code` and `` %d/%d", j, n)
	case "percent":
		t = fmt.Sprintf("100%%v done %%%% %%d %d/%d", j, n)
	case "atname":
		t = fmt.Sprintf("mail user@name and @Type' %d/%d", j, n)
	case "unicode":
		t = fmt.Sprintf("世界 é ü 😀 %d/%d", j, n)
	case "blank":
		t = ""
	case "colon":
		t = fmt.Sprintf("host:port is where %d/%d listens", j, n)
	case "goword":
		t = fmt.Sprintf("go: the game, not a directive %d/%d", j, n)
	case "namefirst":
		l := rdLine{Class: class, Text: fmt.Sprintf("%s is the type, line %d.", owner, n)}
		l.Stripped = strings.TrimSpace(strings.TrimPrefix(l.Text, owner))
		return l
	case "namedouble":
		// the text after the name starts with the name again
		l := rdLine{Class: class, Text: fmt.Sprintf("%s %s-friendly text, line %d.", owner, owner, n)}
		l.Stripped = strings.TrimSpace(strings.TrimPrefix(l.Text, owner))
		return l
	case "tagplus":
		t = fmt.Sprintf("+k8s:x=%d-%d", j, n)
	case "tagat":
		t = fmt.Sprintf("@deprecated since %d/%d", j, n)
	}
	return rdLine{Class: class, Text: t, Stripped: t}
}

func rdLines(classes []string, owner string, j int) []rdLine {
	out := make([]rdLine, 0, len(classes))
	for n, c := range classes {
		out = append(out, rdText(c, owner, j, n+1))
	}
	return out
}

func rdComment(b *strings.Builder, indent string, lines []rdLine) {
	for _, l := range lines {
		if l.Text == "" {
			b.WriteString(indent + "//\n")
		} else {
			b.WriteString(indent + "// " + l.Text + "\n")
		}
	}
}

var (
	stdFieldsOnce sync.Once
	stdFields     []rdField
)

// stdProcAttrFields: the documented fields of os.ProcAttr whose documentation does not begin with the field's own name, with
// the doc lines read from the library's source by go/parser (never through gengo).
func stdProcAttrFields() []rdField {
	stdFieldsOnce.Do(func() {
		fset := token.NewFileSet()
		f, err := parser.ParseFile(fset, filepath.Join(build.Default.GOROOT, "src", "os", "exec.go"), nil, parser.ParseComments)
		if err != nil {
			return
		}
		ast.Inspect(f, func(n ast.Node) bool {
			ts, ok := n.(*ast.TypeSpec)
			if !ok || ts.Name.Name != "ProcAttr" {
				return true
			}
			st, ok := ts.Type.(*ast.StructType)
			if !ok {
				return false
			}
			for _, fld := range st.Fields.List {
				if len(fld.Names) != 1 || fld.Doc == nil {
					continue
				}
				name := fld.Names[0].Name
				text := strings.TrimSpace(fld.Doc.Text())
				if strings.HasPrefix(text, name) {
					continue // (whether a leading FIELD name is removed is left open by the statement)
				}
				lines := []rdLine{}
				for _, ln := range strings.Split(text, "\n") {
					lines = append(lines, rdLine{Class: "std", Text: ln, Stripped: ln})
				}
				stdFields = append(stdFields, rdField{Name: name, Exported: true, FType: "scalar", Embedded: "no", Doc: lines, InnerDoc: []rdLine{}})
			}
			return false
		})
	})
	return append([]rdField{}, stdFields...)
}

func rdConcretise(j int, rc rdCase) rdConc {
	name := fmt.Sprintf("T%d", j)
	cc := rdConc{Exported: true, Kind: rc.Kind, Name: name, Fields: []rdField{}}
	if rc.Kind == "unexportedScalar" {
		cc.Name = fmt.Sprintf("t%d", j)
		cc.Exported = false
	}
	cc.Doc = rdLines(rc.Doc, cc.Name, j)
	var b strings.Builder
	scalarF := func(n string, exported bool, doc []string) rdField {
		return rdField{Name: n, Exported: exported, FType: "scalar", Embedded: "no", Doc: rdLines(doc, n, j), InnerDoc: []rdLine{}, typeSrc: "int"}
	}
	extra := ""
	switch rc.Kind {
	case "fromStd":
		cc.Fields = append(cc.Fields, stdProcAttrFields()...)
	case "struct", "genericStruct":
		switch rc.FieldPat {
		case "one":
			cc.Fields = append(cc.Fields, scalarF("F", true, rc.FDoc))
		case "withUnexported":
			cc.Fields = append(cc.Fields, scalarF("F", true, rc.FDoc), scalarF("g", false, []string{"plain"}))
		case "anonStruct":
			f := scalarF("F", true, rc.FDoc)
			f.FType, f.typeSrc = "anonStruct", "struct{ X int }"
			cc.Fields = append(cc.Fields, f, scalarF("K", true, []string{"plain"}))
		case "emptyNamed":
			f := scalarF("F", true, rc.FDoc)
			f.FType, f.typeSrc = "emptyNamed", fmt.Sprintf("Empty%d", j)
			extra += fmt.Sprintf("\n// Empty%d has no fields.\ntype Empty%d struct{}\n", j, j)
			cc.Fields = append(cc.Fields, f, scalarF("K", true, []string{"plain"}))
		case "embedValue", "embedPointer":
			en := fmt.Sprintf("E%d", j)
			f := rdField{Name: en, Exported: true, FType: "named", Embedded: "value", Doc: []rdLine{}, InnerName: "EF", InnerDoc: rdLines(rc.FDoc, "EF", j), typeSrc: en}
			if rc.FieldPat == "embedPointer" {
				f.Embedded, f.typeSrc = "pointer", "*"+en
			}
			var eb strings.Builder
			fmt.Fprintf(&eb, "\n// %s is embedded.\ntype %s struct {\n", en, en)
			rdComment(&eb, "\t", f.InnerDoc)
			eb.WriteString("\tEF string\n}\n")
			extra += eb.String()
			cc.Fields = append(cc.Fields, f, scalarF("K", true, []string{"plain"}))
		case "embedDocumented":
			// the embedding itself is documented; the inner field is not: the answer is an empty doc, and true
			en := fmt.Sprintf("E%d", j)
			f := rdField{Name: en, Exported: true, FType: "named", Embedded: "value", Doc: rdLines([]string{"plain"}, "zz", j), InnerName: "EF", InnerDoc: []rdLine{}, typeSrc: en}
			extra += fmt.Sprintf("\n// %s is embedded.\ntype %s struct {\n\tEF string\n}\n", en, en)
			cc.Fields = append(cc.Fields, f, scalarF("K", true, rc.FDoc))
		case "embedScalar":
			// an embedded named scalar (what its name answers is not judged); such cases share their package only with types
			// that embed nothing (see ExecAll): whatever the generated code needs for embedded fields must be there all the same
			en := fmt.Sprintf("Kind%d", j)
			f := rdField{Name: en, Exported: true, FType: "named", Embedded: "scalar", Doc: []rdLine{}, InnerName: "Nope", InnerDoc: []rdLine{}, typeSrc: en}
			extra += fmt.Sprintf("\n// %s is an embedded named scalar.\ntype %s string\n", en, en)
			cc.Fields = append(cc.Fields, f, scalarF("K", true, rc.FDoc))
		case "noExported":
			cc.Fields = append(cc.Fields, scalarF("g", false, rc.FDoc))
		case "namedCovered":
			f := scalarF("F", true, rc.FDoc)
			f.FType, f.typeSrc = "named", fmt.Sprintf("N%d", j)
			extra += fmt.Sprintf("\n// N%d is a named struct.\ntype N%d struct {\n\t// NF doc.\n\tNF int\n}\n", j, j)
			cc.Fields = append(cc.Fields, f)
		case "namedIface": // a field of a same-package interface type
			f := scalarF("F", true, rc.FDoc)
			f.FType, f.typeSrc = "named", fmt.Sprintf("I%d", j)
			extra += fmt.Sprintf("\n// I%d is an interface of this package.\ntype I%d interface {\n\tName() string\n}\n", j, j)
			cc.Fields = append(cc.Fields, f, scalarF("K", true, []string{"plain"}))
		case "namedGenericInst": // a field whose type is an instantiation of a generic struct of this package
			f := scalarF("F", true, rc.FDoc)
			f.FType, f.typeSrc = "named", fmt.Sprintf("L%d[string]", j)
			extra += fmt.Sprintf("\n// L%d is a generic list.\ntype L%d[T any] struct {\n\t// Items doc.\n\tItems []T\n}\n", j, j)
			cc.Fields = append(cc.Fields, f, scalarF("K", true, []string{"plain"}))
		case "namedScalar": // a field of a same-package named scalar type
			f := scalarF("F", true, rc.FDoc)
			f.FType, f.typeSrc = "named", fmt.Sprintf("Sc%d", j)
			extra += fmt.Sprintf("\n// Sc%d is a named scalar.\ntype Sc%d int\n", j, j)
			cc.Fields = append(cc.Fields, f)
		case "two":
			k := scalarF("K", true, []string{"percent", "atname"})
			k.typeSrc = "string"
			cc.Fields = append(cc.Fields, scalarF("F", true, rc.FDoc), k)
		}
	}
	if j%4 == 1 && len(cc.Doc) >= 2 {
		// every fourth documented type carries its doc as ONE general comment spanning several lines
		b.WriteString("/*\n")
		for _, l := range cc.Doc {
			b.WriteString(l.Text + "\n")
		}
		b.WriteString("*/\n")
	} else {
		rdComment(&b, "", cc.Doc)
	}
	switch rc.Kind {
	case "scalar", "unexportedScalar":
		fmt.Fprintf(&b, "type %s int\n", cc.Name)
	case "map":
		fmt.Fprintf(&b, "type %s map[string]int\n", cc.Name)
	case "slice":
		fmt.Fprintf(&b, "type %s []string\n", cc.Name)
	case "func":
		fmt.Fprintf(&b, "type %s func() error\n", cc.Name)
	case "interface":
		fmt.Fprintf(&b, "type %s interface{ M() }\n", cc.Name)
	case "fromStd":
		fmt.Fprintf(&b, "type %s os.ProcAttr\n", cc.Name)
	case "struct", "genericStruct":
		if rc.Kind == "genericStruct" {
			fmt.Fprintf(&b, "type %s[X any] struct {\n", cc.Name)
		} else {
			fmt.Fprintf(&b, "type %s struct {\n", cc.Name)
		}
		for _, f := range cc.Fields {
			rdComment(&b, "\t", f.Doc)
			if f.Embedded != "no" {
				fmt.Fprintf(&b, "\t%s\n", f.typeSrc)
			} else {
				fmt.Fprintf(&b, "\t%s %s\n", f.Name, f.typeSrc)
			}
		}
		if rc.Kind == "genericStruct" {
			b.WriteString("\tgv X\n")
		}
		b.WriteString("}\n")
	}
	b.WriteString(extra)
	cc.Source = b.String()
	return cc
}

const rdProbeMain = `package main

import (
	"encoding/json"
	"os"
%s)

type answer struct {
	Lines []string ` + "`json:\"lines\"`" + `
	OK    bool     ` + "`json:\"ok\"`" + `
}

type probeIn struct {
	V        any
	Fields   []string
	Embedded []string
}

type probeOut struct {
	HasMethod bool     ` + "`json:\"has_method\"`" + `
	TypeDoc   answer   ` + "`json:\"type_doc\"`" + `
	Fields    []answer ` + "`json:\"field_answers\"`" + `
	Embedded  []answer ` + "`json:\"embedded_answers\"`" + `
	Unknown   answer   ` + "`json:\"unknown_answer\"`" + `
	Panic     string   ` + "`json:\"panic\"`" + `
}

type docer interface {
	RuntimeDoc(names ...string) ([]string, bool)
}

func ask(d docer, names ...string) answer {
	l, ok := d.RuntimeDoc(names...)
	if l == nil {
		l = []string{}
	}
	return answer{l, ok}
}

func run(in probeIn) (out probeOut) {
	out.Fields, out.Embedded = []answer{}, []answer{}
	out.TypeDoc, out.Unknown = answer{[]string{}, false}, answer{[]string{}, false}
	defer func() {
		if r := recover(); r != nil {
			out.Panic = "panic"
		}
	}()
	d, ok := in.V.(docer)
	out.HasMethod = ok
	if !ok {
		return
	}
	out.TypeDoc = ask(d)
	for _, f := range in.Fields {
		out.Fields = append(out.Fields, ask(d, f))
	}
	for _, f := range in.Embedded {
		if f == "" {
			out.Embedded = append(out.Embedded, answer{[]string{}, false})
		} else {
			out.Embedded = append(out.Embedded, ask(d, f))
		}
	}
	out.Unknown = ask(d, "NoSuchName")
	return
}

func main() {
	res := map[int]probeOut{}
%s	_ = json.NewEncoder(os.Stdout).Encode(res)
}
`

func (runtimedocFam) ExecAll(cases []core.CaseIn, seed int64, emit func(c core.CaseIn, cas, conc, obs any)) error {
	parsed := make([]rdCase, len(cases))
	// packages are consecutive runs of cases: those that embed a named scalar come first, then those that embed nothing, then
	// the ones that embed structs - so the first packages hold no struct that embeds a struct
	rank := func(c core.CaseIn) int {
		var rc rdCase
		_ = json.Unmarshal(c.Case, &rc)
		switch {
		case rc.FieldPat == "embedScalar":
			return 0
		case strings.HasPrefix(rc.FieldPat, "embed"):
			return 2
		}
		return 1
	}
	sort.SliceStable(cases, func(a, b int) bool { return rank(cases[a]) < rank(cases[b]) })
	concs := make([]rdConc, len(cases))
	for i, c := range cases {
		if err := json.Unmarshal(c.Case, &parsed[i]); err != nil {
			return err
		}
		if parsed[i].Doc == nil {
			parsed[i].Doc = []string{}
		}
		concs[i] = rdConcretise(i, parsed[i])
	}
	obsOf := make([]map[string]any, len(cases))
	const perPkg, perMod = 60, 8
	type mod struct{ from, to int }
	var mods []mod
	for i := 0; i < len(cases); i += perPkg * perMod {
		mods = append(mods, mod{i, min(i+perPkg*perMod, len(cases))})
	}
	errs := make([]error, len(mods))
	var wg sync.WaitGroup
	sem := make(chan struct{}, max(2, runtime.NumCPU()/2))
	for mi := range mods {
		wg.Add(1)
		sem <- struct{}{}
		go func(mi int) {
			defer wg.Done()
			defer func() { <-sem }()
			errs[mi] = rdModule(mods[mi].from, mods[mi].to, perPkg, concs, obsOf)
		}(mi)
	}
	wg.Wait()
	for _, e := range errs {
		if e != nil {
			return e
		}
	}
	for i, c := range cases {
		emit(c, nil, concs[i], obsOf[i])
	}
	return nil
}

func rdModule(from, to, perPkg int, concs []rdConc, obsOf []map[string]any) error {
	scratch, err := core.ScratchDir("runtimedoc-")
	if err != nil {
		return err
	}
	defer os.RemoveAll(scratch)
	root := filepath.Join(scratch, "m")
	files := map[string]string{"go.mod": "module example.com/rd\n\ngo 1.24\n"}
	var imports, body strings.Builder
	pkgOf := map[int]string{}
	for p := from; p < to; p += perPkg {
		pkg := fmt.Sprintf("pk%d", p)
		var src, probes strings.Builder
		needOS := ""
		for j := p; j < min(p+perPkg, to); j++ {
			if concs[j].Kind == "fromStd" {
				needOS = "import \"os\"\n\n"
			}
		}
		fmt.Fprintf(&src, "package %s\n\n"+needOS+"// A0first sorts before every other type of the package and renders nothing (no exported field).\ntype A0first struct {\n\thidden int\n}\n\n", pkg)
		fmt.Fprintf(&probes, "package %s\n\n// Probes hands the probe program one value of every type of the package.\nfunc Probes() map[int]any {\n\treturn map[int]any{\n", pkg)
		for j := p; j < min(p+perPkg, to); j++ {
			pkgOf[j] = pkg
			if j == p+perPkg/2 {
				// the second half of the package's types lies below a //line directive (generated parsers, expanded templates)
				src.WriteString("//line types.y:11\n\n")
			}
			src.WriteString(concs[j].Source)
			src.WriteString("\n")
			tn := concs[j].Name
			if concs[j].Kind == "genericStruct" {
				tn += "[int]"
			}
			fmt.Fprintf(&probes, "\t\t%d: new(%s),\n", j, tn)
			fields, embedded := []string{}, []string{}
			for _, f := range concs[j].Fields {
				fields = append(fields, f.Name)
				embedded = append(embedded, f.InnerName)
			}
			fb, _ := json.Marshal(fields)
			eb, _ := json.Marshal(embedded)
			fmt.Fprintf(&body, "\tres[%d] = run(probeIn{V: %s.Probes()[%d], Fields: %s, Embedded: %s})\n", j, pkg, j,
				strings.NewReplacer("[", "[]string{", "]", "}").Replace(string(fb)), strings.NewReplacer("[", "[]string{", "]", "}").Replace(string(eb)))
		}
		probes.WriteString("\t}\n}\n")
		files[pkg+"/doc.go"] = "// Package " + pkg + " holds generated cases.\n//\n// +gengo:runtimedoc\npackage " + pkg + "\n"
		if (p/perPkg)%3 == 1 {
			// an earlier run's output for a type that has been renamed since: the package does not type-check as it stands,
			// the generator has to repair its own output
			files[pkg+"/zz_generated.runtimedoc.go"] = "/*\nPackage " + pkg + " GENERATED BY gengo:runtimedoc \nDON'T EDIT THIS FILE\n*/\npackage " + pkg +
				"\n\nfunc (v *GoneType) RuntimeDoc(names ...string) ([]string, bool) {\n\treturn []string{}, true\n}\n"
		}
		files[pkg+"/types.go"] = src.String()
		files[pkg+"/probes.go"] = probes.String()
		fmt.Fprintf(&imports, "\t%s \"example.com/rd/%s\"\n", pkg, pkg)
	}
	files["cmd/probe/main.go"] = fmt.Sprintf(rdProbeMain, imports.String(), body.String())
	if err := core.WriteFiles(root, files); err != nil {
		return err
	}
	patterns := []string{}
	for p := from; p < to; p += perPkg {
		patterns = append(patterns, fmt.Sprintf("./pk%d", p))
	}
	res, err := runGenerators(root, scratch, "rd", []string{"runtimedoc"}, patterns, false)
	if err != nil {
		return err
	}
	genErr := res.Err + res.LoadErr + res.Panic
	compileErrs, _ := goBuild(root)
	outputs := map[int]map[string]any{}
	if genErr == "" && len(compileErrs) == 0 {
		out, stderr, err := goRun(root, "./cmd/probe")
		if err != nil {
			return fmt.Errorf("probe program failed although the module builds: %v: %s", err, tail(stderr, 800))
		}
		if err := json.Unmarshal(out, &outputs); err != nil {
			return err
		}
	}
	none := map[string]any{"lines": []string{}, "ok": false}
	for j := from; j < to; j++ {
		ce := compileErrs[pkgOf[j]]
		if ce == nil {
			ce = []string{}
		}
		if len(compileErrs["cmd"]) > 0 && len(ce) == 0 && len(compileErrs) == 1 {
			ce = compileErrs["cmd"]
		}
		o := map[string]any{"gen_err": genErr, "compile_errors": ce, "has_method": false, "type_doc": none, "field_answers": []any{}, "embedded_answers": []any{}, "unknown_answer": none, "panic": ""}
		if got, ok := outputs[j]; ok {
			for k, v := range got {
				o[k] = v
			}
		} else {
			fa, ea := []any{}, []any{}
			for range concs[j].Fields {
				fa, ea = append(fa, none), append(ea, none)
			}
			o["field_answers"], o["embedded_answers"] = fa, ea
		}
		obsOf[j] = o
	}
	return nil
}

func (runtimedocFam) Rand(n int, rng *rand.Rand, emit func(cas any)) error {
	classes := []string{"plain", "quotes", "backslash", "backquote", "percent", "atname", "unicode", "namefirst", "namedouble", "tagplus", "tagat", "colon", "goword"}
	doc := func(maxLen int, allowName bool) []string {
		ln := 3 + rng.IntN(maxLen-2)
		out := []string{}
		for i := 0; i < ln; i++ {
			c := classes[rng.IntN(len(classes))]
			if !allowName && (c == "namefirst" || c == "namedouble") {
				c = "plain"
			}
			// an empty // line only in the interior of the group and never twice in a row
			if i > 0 && i < ln-1 && rng.IntN(5) == 0 && out[len(out)-1] != "blank" {
				c = "blank"
			}
			out = append(out, c)
		}
		// among the lines that are documentation (not tags) a blank line must stay interior and single - what happens to a
		// blank line that becomes the first, the last or a doubled one once the tag lines are taken out is not specified
		idx := []int{}
		for i, c := range out {
			if c != "tagplus" && c != "tagat" {
				idx = append(idx, i)
			}
		}
		for k, i := range idx {
			if out[i] == "blank" && (k == 0 || k == len(idx)-1 || out[idx[k-1]] == "blank") {
				out[i] = "plain"
			}
		}
		return out
	}
	kinds := []string{"struct", "genericStruct", "scalar", "map", "slice", "func"}
	fps := []string{"one", "withUnexported", "anonStruct", "emptyNamed", "embedValue", "embedPointer", "embedDocumented", "namedCovered", "two", "namedIface", "namedGenericInst", "namedScalar", "embedScalar"}
	for i := 0; i < n; i++ {
		k := kinds[rng.IntN(len(kinds))]
		c := map[string]any{"kind": k, "doc": doc(7, true), "fieldpat": "none", "fdoc": []string{}}
		if k == "struct" || k == "genericStruct" {
			c["fieldpat"] = fps[rng.IntN(len(fps))]
			c["fdoc"] = doc(6, false)
		}
		emit(c)
	}
	return nil
}
