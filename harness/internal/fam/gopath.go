package fam

import (
	"encoding/json"
	"math/rand/v2"
	"strings"

	"github.com/octohelm/gengo/pkg/gengo"

	"verif/harness/internal/core"
)

// gopath (extra, not one of the listed properties): gengo.ImportGoPath and the package part of
// gengo.PkgImportPathAndExpose for import paths with vendor directories.
//
// case: {"segs":[...path segments...]}
// obs : {"panicked","import_go_path": string, "expose_path": string, "expose_name": string}   (for "<path>.T")
type gopathFam struct{}

func init() { core.Register("gopath", gopathFam{}) }

func (gopathFam) Exec(c core.CaseIn, rng *rand.Rand, emit func(cas, conc, obs any)) error {
	var gc struct {
		Segs []string `json:"segs"`
	}
	if err := json.Unmarshal(c.Case, &gc); err != nil {
		return err
	}
	p := strings.Join(gc.Segs, "/")
	o := map[string]any{"import_go_path": "", "expose_path": "", "expose_name": ""}
	pn := core.Try(func() {
		o["import_go_path"] = gengo.ImportGoPath(p)
		ep, en := gengo.PkgImportPathAndExpose(p + ".T")
		o["expose_path"], o["expose_name"] = ep, en
	})
	o["panicked"] = pn.Panicked
	emit(nil, map[string]any{"path": p}, o)
	return nil
}

func (gopathFam) Rand(n int, rng *rand.Rand, emit func(cas any)) error { return nil }
