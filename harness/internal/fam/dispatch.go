package fam

import (
	"bytes"
	"encoding/json"
	"fmt"
	"math/rand/v2"
	"os"
	"os/exec"
	"path/filepath"
	"runtime"
	"strings"
	"sync"

	"verif/harness/internal/core"
	"verif/harness/internal/pipe"
)

// dispatch (C06): which callbacks a generator receives for a package, for every tag placement.
//
// case: {"gens":[ids], "globals":[[keysegs,value]...], "pkgtags":[...], "decls":[{"name","kind","tags"}...]}
// obs : {"failed","died","panic","err","calls":[{"kind","gen","type","own_same","obj_kind"}...]}
type dispatchFam struct{}

func init() { core.Register("dispatch", dispatchFam{}) }

type dispTag struct {
	Key   []string
	Value string
}

func (t *dispTag) UnmarshalJSON(b []byte) error {
	var raw []json.RawMessage
	if err := json.Unmarshal(b, &raw); err != nil {
		return err
	}
	if len(raw) != 2 {
		return fmt.Errorf("bad tag")
	}
	if err := json.Unmarshal(raw[0], &t.Key); err != nil {
		return err
	}
	return json.Unmarshal(raw[1], &t.Value)
}

type dispDecl struct {
	Name string    `json:"name"`
	Kind string    `json:"kind"`
	Tags []dispTag `json:"tags"`
}

type dispCase struct {
	Gens    []string   `json:"gens"`
	Globals []dispTag  `json:"globals"`
	PkgTags []dispTag  `json:"pkgtags"`
	Decls   []dispDecl `json:"decls"`
}

func tagLines(ts []dispTag) string {
	var b strings.Builder
	for _, t := range ts {
		b.WriteString("// +" + strings.Join(t.Key, ":"))
		if t.Value != "" {
			b.WriteString("=" + t.Value)
		}
		b.WriteString("\n")
	}
	return b.String()
}

var dispGenName = map[string]string{"a": "a", "ab": "ab", "acb": "a:b"}

func (dispatchFam) Exec(c core.CaseIn, rng *rand.Rand, emit func(cas, conc, obs any)) error {
	return fmt.Errorf("dispatch is a batch family")
}

func dispatchOne(self string, dc dispCase) (map[string]any, string, error) {
	scratch, err := core.ScratchDir("disp-")
	if err != nil {
		return nil, "", err
	}
	defer os.RemoveAll(scratch)
	root := filepath.Join(scratch, "m")
	var src strings.Builder
	src.WriteString("package d\n\nimport \"example.com/m/f\"\n\n")
	for _, d := range dc.Decls {
		switch d.Kind {
		case "mltrail_on", "mltrail_off":
			// several lines; the trailing comment on the closing line is a tag line; the next declaration follows at once
			tag := "+gengo:a"
			if d.Kind == "mltrail_off" {
				tag = "+gengo:a=false"
			}
			fmt.Fprintf(&src, "// %s is declaration %s.\ntype %s struct {\n\tX int\n} // %s\n", d.Name, d.Name, d.Name, tag)
			continue
		case "after_ml":
			fmt.Fprintf(&src, "type %s struct{ X int }\n\n", d.Name) // no doc comment of its own
			continue
		}
		fmt.Fprintf(&src, "// %s is declaration %s.\n%s", d.Name, d.Name, tagLines(d.Tags))
		switch d.Kind {
		case "defined":
			fmt.Fprintf(&src, "type %s struct{ X int }\n\n", d.Name)
		case "generic":
			fmt.Fprintf(&src, "type %s[T any] struct{ V T }\n\n", d.Name)
		case "alias_local":
			fmt.Fprintf(&src, "type %s = D01\n\n", d.Name)
		case "alias_foreign":
			fmt.Fprintf(&src, "type %s = f.F0\n\n", d.Name)
		default:
			return nil, "", fmt.Errorf("unknown decl kind %q", d.Kind)
		}
	}
	// never to be dispatched: function-local types (also shadowing package-level names), type parameters
	src.WriteString(`func local1() {
	// +gengo:a
	// +gengo:ab
	type D01 struct{ Z string }
	// +gengo:a
	type L1 int
	// +gengo:a
	type L2 = int
	var _ D01
	var _ L1
	var _ L2
}

func local2[D02 any, TP any](x D02, y TP) {}

func (D05) method[TM any]() {}
`)
	src2 := strings.Replace(src.String(), "func (D05) method[TM any]() {}\n", "", 1) // methods cannot have type parameters
	files := map[string]string{
		"go.mod":       "module " + pipe.ModPath + "\n\ngo 1.24\n",
		"d/a_first.go": "// Package d: the first documented file (by name) carries no generator tags.\npackage d\n",
		"d/doc.go":     "// Package d is a fixture.\n//\n" + tagLines(dc.PkgTags) + "package d\n",
		"d/doc2.go":    "// Package d has a second package comment.\n//\n// +other=1\npackage d\n",
		"d/decls.go":   src2,
		// a second package, generated after d in the same Execute: the same declarations, no package-level generator tags
		"e/doc.go":   "// Package e carries no generator tags of its own.\n//\n// +other=2\npackage e\n",
		"e/decls.go": strings.Replace(src2, "package d\n", "package e\n", 1),
		"f/f.go":     "// Package f is foreign.\n//\n// +gengo:a\n// +gengo:ab\n// +gengo:a:b\npackage f\n\n// F0 lives in another package.\n// +gengo:a\ntype F0 struct{ Y int }\n",
	}
	if err := core.WriteFiles(root, files); err != nil {
		return nil, "", err
	}
	spec := pipe.RunSpec{Dir: root, Layout: "siblings", Patterns: []string{"./d", "./e"}, Plan: map[string]string{}, Globals: map[string][]string{},
		Log: filepath.Join(scratch, "calls.ndjson"), Result: filepath.Join(scratch, "result.json")}
	for _, t := range dc.Globals {
		spec.Globals[strings.Join(t.Key, ":")] = []string{t.Value}
	}
	for _, g := range dc.Gens {
		name, ok := dispGenName[g]
		if !ok {
			return nil, "", fmt.Errorf("unknown generator id %q", g)
		}
		spec.Gens = append(spec.Gens, pipe.GenSpec{Name: name})
		for _, t := range []string{"D05", "D25"} {
			spec.Plan[pipe.ModPath+"/d|"+name+"|"+t] = "render_defer_nested"
		}
		spec.Plan[pipe.ModPath+"/d|"+name+"|D01"] = "render_defer_nested2"      // two follow-ups from the first callback, while the others wait
		spec.Plan[pipe.ModPath+"/d|"+name+"|D13"] = "render_defer_nested_outer" // follow-up registered through the captured context
		for _, t := range []string{"D02", "D06", "D14", "D26"} {
			spec.Plan[pipe.ModPath+"/d|"+name+"|"+t] = "render_defer"
		}
		if name == "ab" {
			// this generator renders nothing from GenerateType: everything comes from its deferred callbacks
			for _, d := range dc.Decls {
				spec.Plan[pipe.ModPath+"/d|"+name+"|"+d.Name] = "nothing_defer"
			}
		}
	}
	b, _ := json.Marshal(spec)
	specPath := filepath.Join(scratch, "spec.json")
	if err := os.WriteFile(specPath, b, 0o644); err != nil {
		return nil, "", err
	}
	cmd := exec.Command(self, "child", "pipeline-run", specPath)
	var se bytes.Buffer
	cmd.Stderr = &se
	runErr := cmd.Run()
	var res pipe.RunResult
	died := false
	if data, err := os.ReadFile(spec.Result); err == nil {
		_ = json.Unmarshal(data, &res)
	} else {
		died = true
	}
	if runErr != nil && !died {
		return nil, "", fmt.Errorf("dispatch child: %v: %s", runErr, se.String())
	}
	calls := []map[string]any{}
	if data, err := os.ReadFile(spec.Log); err == nil {
		for _, ln := range strings.Split(strings.TrimSpace(string(data)), "\n") {
			if ln == "" {
				continue
			}
			var c pipe.Call
			if err := json.Unmarshal([]byte(ln), &c); err != nil {
				return nil, "", err
			}
			pkg := strings.TrimPrefix(c.Pkg, pipe.ModPath+"/")
			calls = append(calls, map[string]any{"kind": c.Kind, "pkg": pkg, "gen": c.Gen, "type": c.Type, "own_same": c.OwnNow == "absent", "obj_kind": c.ObjKind})
		}
	}
	stderr := se.String()
	if len(stderr) > 400 {
		stderr = stderr[:400]
	}
	return map[string]any{"failed": res.Err != "" || res.LoadErr != "", "died": died, "panic": res.Panic, "err": res.Err + res.LoadErr, "calls": calls, "stderr": stderr}, src2, nil
}

func (dispatchFam) ExecAll(cases []core.CaseIn, seed int64, emit func(c core.CaseIn, cas, conc, obs any)) error {
	self := os.Getenv("GVH_SELF")
	if self == "" {
		self, _ = os.Executable()
	}
	type out struct {
		obs map[string]any
		src string
		err error
	}
	results := make([]out, len(cases))
	var wg sync.WaitGroup
	sem := make(chan struct{}, max(2, runtime.NumCPU()-2))
	for i := range cases {
		wg.Add(1)
		sem <- struct{}{}
		go func(i int) {
			defer wg.Done()
			defer func() { <-sem }()
			var dc dispCase
			if err := json.Unmarshal(cases[i].Case, &dc); err != nil {
				results[i].err = err
				return
			}
			// each case is run K times in fresh processes: map order must not matter (C04 meets C06)
			obs, src, err := dispatchOne(self, dc)
			results[i] = out{obs, src, err}
		}(i)
	}
	wg.Wait()
	for i, r := range results {
		if r.err != nil {
			return r.err
		}
		emit(cases[i], nil, map[string]any{"decls_go": r.src}, r.obs)
	}
	return nil
}

func (dispatchFam) Rand(n int, rng *rand.Rand, emit func(cas any)) error { return nil }
