package fam

import (
	"encoding/json"
	"math/rand/v2"
	"os"
	"path/filepath"
	"strings"

	"github.com/octohelm/gengo/pkg/sumfile"

	"verif/harness/internal/core"
)

// sumfile (part of C08): pkg/sumfile Save / Bytes / Load on a scratch directory.
//
// case: {"side":"save","pairs":[[path,hash]...]} | {"side":"load","lines":[[fields...]...]}
// obs : {"panicked","err","file_lines":[[path,hash]...],"exact_format":bool,"loaded":[[path,hash]...]}
type sumfileFam struct{}

func init() { core.Register("sumfile", sumfileFam{}) }

type sfCase struct {
	Side  string     `json:"side"`
	Pairs [][]string `json:"pairs"`
	Lines [][]string `json:"lines"`
}

func (sumfileFam) Exec(c core.CaseIn, rng *rand.Rand, emit func(cas, conc, obs any)) error {
	var sc sfCase
	if err := json.Unmarshal(c.Case, &sc); err != nil {
		return err
	}
	dir, err := core.ScratchDir("sumfile-")
	if err != nil {
		return err
	}
	defer os.RemoveAll(dir)
	obs := map[string]any{"err": "", "file_lines": [][]string{}, "exact_format": false, "loaded": [][]string{}}
	pn := core.Try(func() {
		if sc.Side == "save" {
			f := &sumfile.File{Dir: dir, Data: map[string]string{}}
			for _, p := range sc.Pairs {
				f.Data[p[0]] = p[1]
			}
			if err := f.Save(); err != nil {
				obs["err"] = err.Error()
				return
			}
			data, err := os.ReadFile(filepath.Join(dir, "gengo.sum"))
			if err != nil {
				obs["err"] = err.Error()
				return
			}
			lines := [][]string{}
			exact := len(data) == 0 || data[len(data)-1] == '\n'
			for _, ln := range strings.Split(strings.TrimSuffix(string(data), "\n"), "\n") {
				if len(data) == 0 {
					break
				}
				parts := strings.Split(ln, " ")
				if len(parts) != 2 {
					exact = false
				}
				lines = append(lines, []string{parts[0], parts[len(parts)-1]})
			}
			obs["file_lines"], obs["exact_format"] = lines, exact
		} else {
			var b strings.Builder
			for i, f := range sc.Lines {
				// vary the white space between fields: single space, tabs, leading blanks
				sep := []string{" ", "\t", "   "}[i%3]
				if i%2 == 1 {
					b.WriteString("  ")
				}
				b.WriteString(strings.Join(f, sep))
				b.WriteString("\n")
			}
			if err := os.WriteFile(filepath.Join(dir, "gengo.sum"), []byte(b.String()), 0o644); err != nil {
				obs["err"] = err.Error()
				return
			}
		}
		got, err := sumfile.Load(dir)
		if err != nil {
			obs["err"] = err.Error()
			return
		}
		loaded := [][]string{}
		for _, k := range core.SortedKeys(got.Data) {
			loaded = append(loaded, []string{k, got.Data[k]})
		}
		obs["loaded"] = loaded
	})
	obs["panicked"] = pn.Panicked
	emit(nil, map[string]any{}, obs)
	return nil
}

func (sumfileFam) Rand(n int, rng *rand.Rand, emit func(cas any)) error { return nil }
