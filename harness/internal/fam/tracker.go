package fam

import (
	"bytes"
	"encoding/json"
	"fmt"
	"go/token"
	"go/types"
	"math/rand/v2"
	"strings"

	"github.com/octohelm/gengo/pkg/gengo"
	"github.com/octohelm/gengo/pkg/gengo/snippet"
	"github.com/octohelm/gengo/pkg/namer"
	gengotypes "github.com/octohelm/gengo/pkg/types"

	"verif/harness/internal/core"
)

// tracker (C03): histories of references rendered through one raw namer + import tracker.
//
// case: {"self": path, "steps": [{"kind":"ref"|"expose"|"typelit"|"generic","path":p}...]}
// obs : {"panicked", "steps":[{"text", "imports":[{"path","name","ident_ok"}...], "again_same"}...]}
type trackerFam struct{}

func init() { core.Register("tracker", trackerFam{}) }

type trackerStep struct {
	Kind string `json:"kind"`
	Path string `json:"path"`
}

type trackerCase struct {
	Self  string        `json:"self"`
	Steps []trackerStep `json:"steps"`
}

func lastSeg(p string) string {
	if i := strings.LastIndex(p, "/"); i >= 0 {
		return p[i+1:]
	}
	return p
}

func trackerSnippet(st trackerStep, self string) snippet.Snippet {
	switch st.Kind {
	case "ref":
		return snippet.ID(gengotypes.Ref(st.Path, "T"))
	case "expose":
		return snippet.PkgExpose(st.Path, "Fn")
	case "typelit":
		named := types.NewNamed(types.NewTypeName(token.NoPos, types.NewPackage(st.Path, lastSeg(st.Path)), "T", nil), types.NewStruct(nil, nil), nil)
		return snippet.ID(types.Type(types.NewMap(types.Typ[types.String], types.NewPointer(named))))
	case "generic":
		if len(st.Path)%2 == 0 {
			// the abstract names RawMessage / L are spelled with letters outside ASCII (Go identifiers are not ASCII-only);
			// trackerAbstract spells them back before the text is logged
			return snippet.ID(st.Path + ".G[encoding/json.\u00c9l\u00e9ment," + self + ".\u0141]")
		}
		return snippet.ID(st.Path + ".G[encoding/json.RawMessage," + self + ".L]")
	case "generictime":
		return snippet.ID(st.Path + ".G[string,time.Duration]")
	}
	panic("unknown tracker step kind " + st.Kind)
}

// trackerAbstract: the logged text in the specification's vocabulary (see the generic step of trackerSnippet).
func trackerAbstract(text string) string {
	return strings.NewReplacer("\u00c9l\u00e9ment", "RawMessage", "\u0141", "L").Replace(text)
}

func (trackerFam) Exec(c core.CaseIn, rng *rand.Rand, emit func(cas, conc, obs any)) error {
	var tc trackerCase
	if err := json.Unmarshal(c.Case, &tc); err != nil {
		return err
	}
	tracker := namer.NewDefaultImportTracker()
	buf := bytes.NewBuffer(nil)
	sw := gengo.NewSnippetWriter(buf, namer.NameSystems{"raw": namer.NewRawNamer(tc.Self, tracker)})
	type imp struct {
		Path    string `json:"path"`
		Name    string `json:"name"`
		IdentOK bool   `json:"ident_ok"`
	}
	type stepObs struct {
		Text      string `json:"text"`
		Imports   []imp  `json:"imports"`
		AgainSame bool   `json:"again_same"`
	}
	steps := []stepObs{}
	var pn core.Panic
	for _, st := range tc.Steps {
		so := stepObs{Imports: []imp{}}
		pn = core.Try(func() {
			buf.Reset()
			sw.Render(trackerSnippet(st, tc.Self))
			so.Text = trackerAbstract(buf.String())
			// asking twice yields the same name / text, and does not change the table
			before := fmt.Sprint(tracker.Imports())
			n1 := tracker.LocalNameOf(st.Path)
			buf.Reset()
			sw.Render(trackerSnippet(st, tc.Self))
			so.AgainSame = trackerAbstract(buf.String()) == so.Text && tracker.LocalNameOf(st.Path) == n1 && fmt.Sprint(tracker.Imports()) == before
			if p, ok := tracker.PathOf(n1); n1 != "" && (!ok || p != st.Path) {
				so.AgainSame = false
			}
		})
		if pn.Panicked {
			break
		}
		imps := tracker.Imports()
		for _, p := range core.SortedKeys(imps) {
			so.Imports = append(so.Imports, imp{Path: p, Name: imps[p], IdentOK: token.IsIdentifier(imps[p])})
		}
		steps = append(steps, so)
	}
	emit(nil, map[string]any{}, map[string]any{"panicked": pn.Panicked, "panic_msg": pn.Msg, "panic_site": pn.Site, "steps": steps})
	return nil
}

// random path sets from a path grammar with keyword / digit-leading / punctuation / vN / apis / domain segments
func (trackerFam) Rand(n int, rng *rand.Rand, emit func(cas any)) error {
	hosts := []string{"a.com", "github.com", "k8s.io", "x", "gopkg.in", "go.uber.org", ""}
	segs := []string{"json", "api", "apis", "domain", "v1", "v2", "v10", "core", "apps", "go", "type", "func", "map", "1pkg", "9", "foo-bar", "foo_bar",
		"foobar", "_x", "-", "a", "b", "ab", "x", "yaml.v3", "Ünï", "pkg", "internal", "user", "string", "errors", "fmt", "io", "os", "http", "net"}
	kinds := []string{"ref", "expose", "typelit", "generic"}
	// fall-back numbering against std: several spellings that all reduce to the same candidate, plus the std package whose
	// name is that candidate followed by a digit, in random order
	stdDigit := [][2]string{{"crypto/sha1", "sha"}, {"crypto/md5", "md"}, {"encoding/asn1", "asn"}, {"hash/crc32", "crc"}, {"crypto/sha256", "sha"}, {"hash/fnv", "fn"}, {"encoding/base64", "base"}, {"crypto/sha512", "sha"}, {"hash/crc64", "crc"}}
	for i := 0; i < n/4; i++ {
		sd := stdDigit[rng.IntN(len(stdDigit))]
		b := sd[1]
		variants := []string{b, b[:1] + "." + b[1:], b[:1] + "-" + b[1:], "x/" + b, b[:len(b)-1] + "_" + b[len(b)-1:], "x/y/" + b, "y/" + b[:1] + "." + b[1:]}
		rng.Shuffle(len(variants), func(a, c int) { variants[a], variants[c] = variants[c], variants[a] })
		k := 2 + rng.IntN(len(variants)-1)
		paths := append([]string{}, variants[:k]...)
		pos := rng.IntN(len(paths) + 1)
		paths = append(paths[:pos], append([]string{sd[0]}, paths[pos:]...)...)
		steps := []trackerStep{}
		for _, p := range paths {
			steps = append(steps, trackerStep{Kind: kinds[rng.IntN(3)], Path: p})
		}
		emit(map[string]any{"self": "self.io/me", "steps": steps})
	}
	for i := 0; i < n; i++ {
		np := 2 + rng.IntN(7)
		paths := []string{}
		for j := 0; j < np; j++ {
			var parts []string
			if h := hosts[rng.IntN(len(hosts))]; h != "" {
				parts = append(parts, h)
			}
			ns := 1 + rng.IntN(4)
			for k := 0; k < ns; k++ {
				parts = append(parts, segs[rng.IntN(len(segs))])
			}
			paths = append(paths, strings.Join(parts, "/"))
		}
		steps := []trackerStep{}
		ln := np + rng.IntN(4)
		for j := 0; j < ln; j++ {
			p := paths[rng.IntN(len(paths))]
			if rng.IntN(10) == 0 {
				p = "self.io/me"
			}
			steps = append(steps, trackerStep{Kind: kinds[rng.IntN(len(kinds))], Path: p})
		}
		emit(map[string]any{"self": "self.io/me", "steps": steps})
	}
	return nil
}
