package fam

import (
	"bytes"
	"encoding/json"
	"fmt"
	"go/ast"
	"go/format"
	"go/parser"
	"go/scanner"
	"go/token"
	"math/rand/v2"
	"os"
	"os/exec"
	"path/filepath"
	"regexp"
	"runtime"
	"strconv"
	"strings"
	"sync"

	gformat "mvdan.cc/gofumpt/format"

	"verif/harness/internal/core"
	"verif/harness/internal/pipe"
)

// genfile (C01, written-file side of C03): fragment sequences rendered through the real pipeline into real files.
//
// case: {"frags":[{"kind","noise","refs":[paths]}...], "mode", "module"}
// obs : see genfileObserve
type genfileFam struct{}

func init() { core.Register("genfile", genfileFam{}) }

type gfFrag struct {
	Kind  string   `json:"kind"`
	Noise string   `json:"noise"`
	Refs  []string `json:"refs"`
}

type gfCase struct {
	Frags  []gfFrag `json:"frags"`
	Mode   string   `json:"mode"`
	Module string   `json:"module"`
}

func (genfileFam) Exec(c core.CaseIn, rng *rand.Rand, emit func(cas, conc, obs any)) error {
	return fmt.Errorf("genfile is a batch family")
}

type gfModule struct{ Path, Go string }

var gfModules = map[string]gfModule{
	"go1.24":      {"example.com/m", "1.24"},
	"go1.18":      {"example.com/m", "1.18"},
	"go1.20":      {"example.com/m", "1.20"},   // a directive that ends in a zero
	"go1.24.2":    {"example.com/m", "1.24.2"}, // a three-part go directive
	"go1.21local": {"m", "1.21"},               // a module path without a dot: its packages look like std to an import grouper that ignores ModulePath
	// the module is one of two in a go.work workspace; the other one (go 1.12, another path) is generated first in the same Execute
	"ws1.24": {"example.com/m", "1.24"},
}

// gfPkgName: in the go1.18 module the package clause differs from the directory name
func gfPkgName(modName, dir string) string {
	if modName == "go1.18" {
		return "named" + dir
	}
	return dir
}

func refID(mod gfModule, ref, self string) string {
	switch ref {
	case "encoding/json":
		return "encoding/json.RawMessage"
	case "example.com/m/dep/json":
		return mod.Path + "/dep/json.T"
	case "example.com/m/dep/v2/util":
		return mod.Path + "/dep/v2/util.T"
	case "example.com/m/dep/client":
		return mod.Path + "/dep/client.T"
	case "self":
		return self + ".T1"
	}
	return ref + ".T"
}

// fragScript builds the Render calls (lists of parts) of one fragment.
func fragScript(mod gfModule, self string, f gfFrag, i int) [][]pipe.ScriptPart {
	t := func(s string) pipe.ScriptPart { return pipe.ScriptPart{T: s} }
	var parts []pipe.ScriptPart
	fields := func(sep string, prefix string) {
		for k, r := range f.Refs {
			if k > 0 {
				parts = append(parts, t(sep))
			}
			parts = append(parts, t(fmt.Sprintf("%s%d ", prefix, k)), pipe.ScriptPart{ID: refID(mod, r, self)})
		}
	}
	switch f.Kind {
	case "func":
		parts = append(parts, t(fmt.Sprintf("func F%d(", i)))
		fields(", ", "a")
		parts = append(parts, t(") {}"))
	case "method":
		parts = append(parts, t(fmt.Sprintf("func (T1) M%d() {}", i)))
	case "var":
		if len(f.Refs) == 0 {
			parts = append(parts, t(fmt.Sprintf("var V%d = 1", i)))
		} else {
			parts = append(parts, t(fmt.Sprintf("var V%d struct {\n", i)))
			fields("\n", "A")
			parts = append(parts, t("\n}"))
		}
	case "const":
		parts = append(parts, t(fmt.Sprintf("const C%d = 1", i)))
	case "type":
		parts = append(parts, t(fmt.Sprintf("type S%d struct {\n", i)))
		fields("\n", "B")
		parts = append(parts, t("\n}"))
	case "initfn":
		parts = append(parts, t(fmt.Sprintf("func init() { _ = %d }", i)))
	case "grouped":
		parts = append(parts, t(fmt.Sprintf("var (\n\tGA%d = 1\n\tGB%d = 2\n)", i, i)))
	case "comment":
		parts = append(parts, t(fmt.Sprintf("// comment %d", i)))
	case "directive":
		parts = append(parts, t(fmt.Sprintf("//go:noinline\nfunc D%d() {}", i)))
	case "group1":
		parts = append(parts, t(fmt.Sprintf("var (\n\tGS%d = 1\n)", i)))
	case "octal":
		parts = append(parts, t(fmt.Sprintf("const O%d = 0644", i)))
	case "oddcomment":
		// nothing here for gofumpt to change, but go/printer needs more than one pass to settle (a comment inside the brackets)
		parts = append(parts, t(fmt.Sprintf("var L%d = [\n// sizes %d\n] int { 1 , 2 , 3 }", i, i)))
	case "tmpl":
		parts = append(parts, pipe.ScriptPart{Tmpl: fmt.Sprintf("var U%d @used", i), Used: self + ".T1", Unused: "encoding/xml.Decoder"})
	}
	// declarations assembled from several Render calls at places where an inserted line break changes the program
	switch f.Kind {
	case "skipref": // (rendered for the second type of the package, see genfileBatch)
		parts = append(parts, t(fmt.Sprintf("var SK%d struct {\n", i)))
		fields("\n", "K")
		parts = append(parts, t("\n}"))
		return [][]pipe.ScriptPart{append(append([]pipe.ScriptPart{t("\n")}, parts...), t("\n"))}
	case "rawsplit": // inside a raw string literal
		return [][]pipe.ScriptPart{{t(fmt.Sprintf("\nvar R%d = `ab", i))}, {t("cd` + `e")}, {t("f`\n")}}
	case "retsplit": // between return and its operand
		return [][]pipe.ScriptPart{{t(fmt.Sprintf("\nfunc Z%d() int { return", i))}, {t(" 42 }\n")}}
	}
	plainKind := f.Kind == "comment" || f.Kind == "directive"
	wrap := func(pre, post string) [][]pipe.ScriptPart {
		all := append([]pipe.ScriptPart{t(pre)}, parts...)
		all = append(all, t(post))
		return [][]pipe.ScriptPart{all}
	}
	switch f.Noise {
	case "leading_blank":
		return wrap("\n\n\n\n", "\n")
	case "trailing_blank":
		return wrap("\n", "\n\n\n\n")
	case "odd_spacing":
		if !plainKind {
			for k := range parts {
				if parts[k].ID == "" && parts[k].Tmpl == "" {
					parts[k].T = strings.ReplaceAll(parts[k].T, " ", "  \t ")
				}
			}
		}
		return wrap("\n", "  \t\n")
	case "no_final_newline":
		return wrap("\n", "")
	case "two_on_one":
		if plainKind {
			return wrap("\n", fmt.Sprintf("\nvar X%d = 2\n", i))
		}
		return wrap("\n", fmt.Sprintf("; var X%d = 2\n", i))
	case "split":
		all := append([]pipe.ScriptPart{t("\n")}, parts...)
		all = append(all, t("\n"))
		h := len(all) / 2
		if h == 0 {
			h = 1
		}
		return [][]pipe.ScriptPart{all[:h], all[h:]}
	}
	return wrap("\n", "\n")
}

// normalise reduces Go source (a file, or a body prefixed with a package clause) to what formatting may not change:
// the sequence of top-level declarations - one entry per spec, so that grouping / ungrouping of adjacent declarations,
// which gofumpt does, is invisible - each as its token sequence, and the sequence of non-empty comment lines.
func normalise(src []byte) (decls []string, comments []string, err error) {
	fset := token.NewFileSet()
	f, err := parser.ParseFile(fset, "x.go", src, parser.ParseComments|parser.SkipObjectResolution)
	if err != nil {
		return nil, nil, err
	}
	toks := func(from, to token.Pos) string {
		a, b := fset.Position(from).Offset, fset.Position(to).Offset
		return strings.Join(tokensOf(src[a:b]), " ")
	}
	for _, d := range f.Decls {
		switch x := d.(type) {
		case *ast.GenDecl:
			if x.Tok == token.IMPORT {
				continue
			}
			for _, sp := range x.Specs {
				decls = append(decls, x.Tok.String()+" "+toks(sp.Pos(), sp.End()))
			}
		case *ast.FuncDecl:
			decls = append(decls, toks(x.Pos(), x.End()))
		}
	}
	for _, cg := range f.Comments {
		if cg.Pos() < f.Package {
			continue // the file header
		}
		for _, c := range cg.List {
			for _, ln := range strings.Split(c.Text, "\n") {
				ln = strings.TrimSpace(ln)
				if ln != "" && ln != "//" {
					comments = append(comments, ln)
				}
			}
		}
	}
	return decls, comments, nil
}

// tokensOf: the token sequence of a piece of Go source, comments and semicolons left out.
func tokensOf(src []byte) []string {
	fset := token.NewFileSet()
	file := fset.AddFile("", fset.Base(), len(src))
	var s scanner.Scanner
	s.Init(file, src, nil, 0)
	out := []string{}
	for {
		_, tok, lit := s.Scan()
		if tok == token.EOF {
			break
		}
		if tok == token.SEMICOLON {
			continue
		}
		if lit == "" {
			lit = tok.String()
		}
		if tok == token.INT {
			if v, err := strconv.ParseInt(lit, 0, 64); err == nil {
				lit = strconv.FormatInt(v, 10) // 0644 and 0o644 are the same literal
			}
		}
		out = append(out, lit)
	}
	return out
}

var headerGen = regexp.MustCompile(`GENERATED BY gengo:(\S+)`)

func genfileObserve(root string, mod gfModule, pkgDir, pkgName, gen string, script [][]pipe.ScriptPart, selfPath string) map[string]any {
	o := map[string]any{"written": false, "parses": false, "header_names_gen": false, "pkg_name": "", "want_pkg_name": pkgName, "decl_names": []string{}, "same_modulo_formatting": false,
		"gofmt_fixed": false, "gofumpt_fixed": false, "import_paths": []string{}, "import_names": []string{}, "import_names_ok": true, "compile_errors": []string{}}
	path := filepath.Join(root, pkgDir, pipe.Base+"."+gen+".go")
	data, err := os.ReadFile(path)
	if err != nil {
		return o
	}
	o["written"] = true
	fset := token.NewFileSet()
	f, err := parser.ParseFile(fset, path, data, parser.ParseComments|parser.AllErrors)
	if err != nil {
		o["parse_err"] = err.Error()
		return o
	}
	o["parses"] = true
	// opens with a comment naming the generator
	if len(f.Comments) > 0 && f.Comments[0].Pos() < f.Package {
		if m := headerGen.FindStringSubmatch(f.Comments[0].Text()); m != nil && m[1] == gen {
			o["header_names_gen"] = bytes.HasPrefix(bytes.TrimLeft(data, " \t\n"), []byte("/*")) || bytes.HasPrefix(bytes.TrimLeft(data, " \t\n"), []byte("//"))
		}
	}
	o["pkg_name"] = f.Name.Name
	names := []string{}
	for _, d := range f.Decls {
		switch x := d.(type) {
		case *ast.GenDecl:
			if x.Tok == token.IMPORT {
				continue
			}
			for _, sp := range x.Specs {
				switch s := sp.(type) {
				case *ast.ValueSpec:
					for _, n := range s.Names {
						names = append(names, n.Name)
					}
				case *ast.TypeSpec:
					names = append(names, s.Name.Name)
				}
			}
		case *ast.FuncDecl:
			n := x.Name.Name
			if x.Recv != nil && len(x.Recv.List) == 1 {
				if id, ok := x.Recv.List[0].Type.(*ast.Ident); ok {
					n = id.Name + "." + n
				}
			}
			names = append(names, n)
		}
	}
	o["decl_names"] = names
	ipaths, inames := []string{}, []string{}
	namesOK := true
	for _, im := range f.Imports {
		p := strings.Trim(im.Path.Value, `"`)
		if mod.Path != "example.com/m" && strings.HasPrefix(p, mod.Path+"/") { // report in the specification's vocabulary
			p = "example.com/m" + strings.TrimPrefix(p, mod.Path)
		}
		ipaths = append(ipaths, p)
		if im.Name == nil {
			// a plain import binds the name in the imported package's package clause
			declared := p[strings.LastIndex(p, "/")+1:]
			if strings.HasSuffix(p, "/dep/client") {
				declared = "xclient"
			}
			inames = append(inames, declared)
		} else {
			inames = append(inames, im.Name.Name)
			if !token.IsIdentifier(im.Name.Name) || im.Name.Name == "_" || im.Name.Name == "." {
				namesOK = false
			}
		}
	}
	o["import_paths"], o["import_names"], o["import_names_ok"] = ipaths, inames, namesOK
	// the rendered body, re-rendered by the harness through the same writer machinery, against the file's body: token for token
	// The reference text is put together by the harness itself - the text parts as they are, a reference to a type as the local
	// name the FILE binds to its package (or nothing for the file's own package) + its name - never by gengo's writer: what a
	// Render call adds or drops must show.
	nameOf := map[string]string{}
	for k, im := range f.Imports {
		nameOf[strings.Trim(im.Path.Value, `"`)] = inames[k]
	}
	refText := func(id string) string {
		dot := strings.LastIndex(id, ".")
		path, name := id[:dot], id[dot+1:]
		if path == selfPath {
			return name
		}
		if n, ok := nameOf[path]; ok {
			return n + "." + name
		}
		return "MISSINGIMPORT." + name
	}
	var ref strings.Builder
	for _, call := range script {
		for _, part := range call {
			switch {
			case part.Tmpl != "":
				ref.WriteString(strings.ReplaceAll(part.Tmpl, "@used", refText(part.Used)))
			case part.ID != "":
				ref.WriteString(refText(part.ID))
			default:
				ref.WriteString(part.T)
			}
		}
	}
	{
		wd, wc, e1 := normalise(append([]byte("package "+pkgName+"\n"), ref.String()...))
		gd, gc, e2 := normalise(data)
		same := e1 == nil && e2 == nil && strings.Join(wd, "\x00") == strings.Join(gd, "\x00") && strings.Join(wc, "\x00") == strings.Join(gc, "\x00")
		o["same_modulo_formatting"] = same
		if !same {
			o["norm_want"], o["norm_got"] = append(append([]string{}, wd...), wc...), append(append([]string{}, gd...), gc...)
		}
	}
	if fm, err := format.Source(data); err == nil {
		o["gofmt_fixed"] = bytes.Equal(fm, data)
	}
	if fm, err := gformat.Source(data, gformat.Options{LangVersion: "go" + mod.Go, ModulePath: mod.Path}); err == nil {
		o["gofumpt_fixed"] = bytes.Equal(fm, data)
	}
	return o
}

func (genfileFam) ExecAll(cases []core.CaseIn, seed int64, emit func(c core.CaseIn, cas, conc, obs any)) error {
	self := os.Getenv("GVH_SELF")
	if self == "" {
		self, _ = os.Executable()
	}
	byMod := map[string][]int{}
	parsed := make([]gfCase, len(cases))
	for i, c := range cases {
		if err := json.Unmarshal(c.Case, &parsed[i]); err != nil {
			return err
		}
		if _, ok := gfModules[parsed[i].Module]; !ok {
			return fmt.Errorf("unknown module variant %q", parsed[i].Module)
		}
		byMod[parsed[i].Module] = append(byMod[parsed[i].Module], i)
	}
	type batch struct {
		mod string
		idx []int
	}
	var batches []batch
	const per = 80
	for m, idx := range byMod {
		for i := 0; i < len(idx); i += per {
			batches = append(batches, batch{m, idx[i:min(i+per, len(idx))]})
		}
	}
	obsOf := make([]map[string]any, len(cases))
	concOf := make([]map[string]any, len(cases))
	errs := make([]error, len(batches))
	var wg sync.WaitGroup
	sem := make(chan struct{}, max(2, runtime.NumCPU()/2))
	for bi := range batches {
		wg.Add(1)
		sem <- struct{}{}
		go func(bi int) {
			defer wg.Done()
			defer func() { <-sem }()
			errs[bi] = genfileBatch(self, batches[bi].mod, batches[bi].idx, parsed, obsOf, concOf)
		}(bi)
	}
	wg.Wait()
	for _, e := range errs {
		if e != nil {
			return e
		}
	}
	for i, c := range cases {
		emit(c, nil, concOf[i], obsOf[i])
	}
	return nil
}

func genfileBatch(self, modName string, idx []int, parsed []gfCase, obsOf, concOf []map[string]any) error {
	mod := gfModules[modName]
	scratch, err := core.ScratchDir("genfile-")
	if err != nil {
		return err
	}
	defer os.RemoveAll(scratch)
	root := filepath.Join(scratch, "m")
	ws := modName == "ws1.24"
	wsRoot := root
	if ws {
		wsRoot = filepath.Join(scratch, "w")
		root = filepath.Join(wsRoot, "m")
		if err := core.WriteFiles(wsRoot, map[string]string{
			"go.work":             "go 1.24\n\nuse (\n\t./legacy\n\t./m\n)\n",
			"legacy/go.mod":       "module a.example/legacy\n\ngo 1.12\n",
			"legacy/old/doc.go":   "// Package old lives in the other module of the workspace.\n//\n// +gengo:a\npackage old\n",
			"legacy/old/types.go": "package old\n\ntype T1 struct{}\n",
		}); err != nil {
			return err
		}
	}
	files := map[string]string{
		"go.mod":               "module " + mod.Path + "\n\ngo " + mod.Go + "\n",
		"dep/json/json.go":     "package json\n\ntype T struct{}\n",
		"dep/v2/util/util.go":  "package util\n\ntype T int\n",
		"dep/client/client.go": "package xclient\n\ntype T struct{}\n", // package clause differs from the directory name
	}
	scripts := map[int][][]pipe.ScriptPart{}
	bodies := map[string]string{}
	skipPlan := map[string]string{}
	for _, i := range idx {
		pkg := fmt.Sprintf("c%d", i)
		selfPath := mod.Path + "/" + pkg
		pkgName := gfPkgName(modName, pkg)
		files[pkg+"/doc.go"] = "// Package " + pkgName + " is a case.\n//\n// +gengo:a\npackage " + pkgName + "\n"
		files[pkg+"/types.go"] = "package " + pkgName + "\n\ntype T1 struct{}\n\ntype T2 struct{}\n"
		var script, script2 [][]pipe.ScriptPart
		for k, f := range parsed[i].Frags {
			if f.Kind == "skipref" {
				script2 = append(script2, fragScript(mod, selfPath, f, k+1)...)
			} else {
				script = append(script, fragScript(mod, selfPath, f, k+1)...)
			}
		}
		scripts[i] = append(append([][]pipe.ScriptPart{}, script...), script2...)
		js, _ := json.Marshal(script)
		bodies[selfPath+"|a|T1"] = "SCRIPT:" + string(js)
		// the second type: renders the skipref fragments (if any) and then returns ErrSkip
		js2, _ := json.Marshal(script2)
		bodies[selfPath+"|a|T2"] = "SCRIPT:" + string(js2)
		skipPlan[selfPath+"|a|T2"] = "render_skip"
	}
	if err := core.WriteFiles(root, files); err != nil {
		return err
	}
	run := func(patterns []string, tag string) (pipe.RunResult, error) {
		if ws {
			// both modules of the workspace in one Execute: the other module's package sorts (and is generated) first
			var wp []string
			for _, p := range patterns {
				if p == "./..." {
					wp = append(wp, "./legacy/...", "./m/...")
				} else {
					wp = append(wp, "./legacy/...", "./m/"+strings.TrimPrefix(p, "./"))
				}
			}
			patterns = wp
		}
		spec := pipe.RunSpec{Dir: wsRoot, Layout: "siblings", Patterns: patterns, Gens: []pipe.GenSpec{{Name: "a"}}, Plan: skipPlan, Bodies: bodies,
			Log: filepath.Join(scratch, "calls-"+tag+".ndjson"), Result: filepath.Join(scratch, "result-"+tag+".json")}
		b, _ := json.Marshal(spec)
		sp := filepath.Join(scratch, "spec-"+tag+".json")
		if err := os.WriteFile(sp, b, 0o644); err != nil {
			return pipe.RunResult{}, err
		}
		cmd := exec.Command(self, "child", "pipeline-run", sp)
		if ws {
			cmd.Env = append(os.Environ(), "GOFLAGS=") // the go command refuses -mod=mod in workspace mode
		}
		var se bytes.Buffer
		cmd.Stderr = &se
		if err := cmd.Run(); err != nil {
			return pipe.RunResult{}, fmt.Errorf("genfile run child: %v: %s", err, se.String())
		}
		var res pipe.RunResult
		data, err := os.ReadFile(spec.Result)
		if err != nil {
			return res, err
		}
		return res, json.Unmarshal(data, &res)
	}
	// a first generation with a longer body: the judged run then has to REWRITE an existing, longer file
	realBodies := bodies
	longBodies := map[string]string{}
	for k, v := range realBodies {
		var script [][]pipe.ScriptPart // functions only: declared types would become types of the package in the judged run
		_ = v
		for x := 0; x < 40; x++ {
			script = append(script, []pipe.ScriptPart{{T: fmt.Sprintf("\nfunc earlierVersion%d() {\n\t// this function is gone in the next version of the generator\n}\n", x)}})
		}
		if strings.HasSuffix(k, "|T2") {
			script = nil // only the first type has an earlier, longer body
		}
		js, _ := json.Marshal(script)
		longBodies[k] = "SCRIPT:" + string(js)
	}
	// ... except for every fourth case: there the earlier generation rendered exactly the same, and the file was then touched in
	// its surrounding white space only (final newline gone, blank lines in front and behind) - the judged run must repair it
	tampered := map[int]bool{}
	for _, i := range idx {
		declaresType := false // (a type declared by the earlier generation would be a type of the package in the judged run)
		for _, f := range parsed[i].Frags {
			declaresType = declaresType || f.Kind == "type"
		}
		if i%4 == 0 && !declaresType {
			tampered[i] = true
			for _, ty := range []string{"T1", "T2"} {
				k := mod.Path + "/" + fmt.Sprintf("c%d", i) + "|a|" + ty
				longBodies[k] = realBodies[k]
			}
		}
	}
	bodies = longBodies
	if _, err := run([]string{"./..."}, "pre"); err != nil {
		return err
	}
	for i := range tampered {
		fp := filepath.Join(root, fmt.Sprintf("c%d", i), pipe.Base+".a.go")
		if data, err := os.ReadFile(fp); err == nil {
			_ = os.WriteFile(fp, []byte("\n\n"+strings.TrimRight(string(data), "\n")+"\n\n\n"), 0o644)
		}
	}
	bodies = realBodies
	res, err := run([]string{"./..."}, "all")
	if err != nil {
		return err
	}
	errOf := map[int]string{}
	if res.Err != "" || res.LoadErr != "" || res.Panic != "" {
		// one failing case aborts Execute for the packages behind it: run every case of the batch on its own
		for _, i := range idx {
			r, err := run([]string{fmt.Sprintf("./c%d", i)}, fmt.Sprintf("c%d", i))
			if err != nil {
				return err
			}
			errOf[i] = r.Err + r.LoadErr + r.Panic
		}
	}
	// compile the whole module once; attribute errors to packages
	cmd := exec.Command("go", "build", "./...")
	cmd.Dir = root
	cmd.Env = append(os.Environ(), "GOFLAGS=-mod=mod", "GOWORK=off")
	out, _ := cmd.CombinedOutput()
	compileErrs := map[int][]string{}
	lineRe := regexp.MustCompile(`^(?:\./)?c(\d+)/[^:]+:\d+:\d+: (.*)$`)
	for _, ln := range strings.Split(string(out), "\n") {
		if m := lineRe.FindStringSubmatch(ln); m != nil {
			var k int
			fmt.Sscan(m[1], &k)
			compileErrs[k] = append(compileErrs[k], m[2])
		}
	}
	for _, i := range idx {
		pkg := fmt.Sprintf("c%d", i)
		o := genfileObserve(root, mod, pkg, gfPkgName(modName, pkg), "a", scripts[i], mod.Path+"/"+pkg)
		o["err"] = errOf[i]
		ce := compileErrs[i]
		if ce == nil {
			ce = []string{}
		}
		o["compile_errors"] = ce
		obsOf[i] = o
		data, _ := os.ReadFile(filepath.Join(root, pkg, pipe.Base+".a.go"))
		concOf[i] = map[string]any{"file": string(data)}
	}
	return nil
}

func (genfileFam) Rand(n int, rng *rand.Rand, emit func(cas any)) error {
	kinds := []string{"func", "method", "var", "const", "type", "grouped", "comment", "directive", "initfn"}
	noises := []string{"none", "leading_blank", "trailing_blank", "odd_spacing", "no_final_newline", "two_on_one", "split"}
	modes := []string{"none", "std", "clash", "all"}
	mods := []string{"go1.24", "go1.18", "go1.21local"}
	refsAt := func(mode string, i int) []string {
		switch mode {
		case "std":
			if i == 1 {
				return []string{"encoding/json"}
			}
		case "clash":
			if i == 1 {
				return []string{"encoding/json", "example.com/m/dep/json"}
			}
			return []string{"example.com/m/dep/json"}
		case "all":
			if i == 1 {
				return []string{"encoding/json", "example.com/m/dep/json", "example.com/m/dep/v2/util", "self"}
			}
			return []string{"example.com/m/dep/v2/util", "example.com/m/dep/client", "self"}
		}
		return []string{}
	}
	for c := 0; c < n; c++ {
		mode := modes[rng.IntN(len(modes))]
		ln := 3 + rng.IntN(6)
		frags := []gfFrag{}
		for i := 1; i <= ln; i++ {
			k := kinds[rng.IntN(len(kinds))]
			refs := []string{}
			if k == "func" || k == "var" || k == "type" {
				refs = refsAt(mode, i)
			}
			frags = append(frags, gfFrag{Kind: k, Noise: noises[rng.IntN(len(noises))], Refs: refs})
		}
		emit(map[string]any{"frags": frags, "mode": mode, "module": mods[rng.IntN(len(mods))]})
	}
	return nil
}
