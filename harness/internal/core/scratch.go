package core

import (
	"os"
	"path/filepath"
)

// ScratchDir returns a fresh directory under $VERIF_SCRATCH (outside /repo and /verif).
func ScratchDir(prefix string) (string, error) {
	base := os.Getenv("VERIF_SCRATCH")
	if base == "" {
		base = os.TempDir()
	}
	if err := os.MkdirAll(base, 0o755); err != nil {
		return "", err
	}
	return os.MkdirTemp(base, prefix)
}

// WriteFiles writes a map of relative path -> content under dir.
func WriteFiles(dir string, files map[string]string) error {
	for rel, content := range files {
		p := filepath.Join(dir, rel)
		if err := os.MkdirAll(filepath.Dir(p), 0o755); err != nil {
			return err
		}
		if err := os.WriteFile(p, []byte(content), 0o644); err != nil {
			return err
		}
	}
	return nil
}
