package core

import "fmt"

// Children are sub-commands that must run in their own process (process death inside a
// callback, fresh map seeds, analyses that can die with a fatal error).
var Children = map[string]func(args []string) error{}

func RunChild(args []string) error {
	if len(args) == 0 {
		return fmt.Errorf("missing child name")
	}
	f, ok := Children[args[0]]
	if !ok {
		return fmt.Errorf("unknown child %q", args[0])
	}
	return f(args[1:])
}
