// Package core holds what every family driver shares: the NDJSON envelope, panic capture,
// seeded randomness and the family registry. The harness never decides pass/fail: it
// concretises abstract cases, drives the real gengo code, and records what happened.
package core

import (
	"bufio"
	"bytes"
	"encoding/json"
	"fmt"
	"io"
	"math/rand/v2"
	"os"
	"runtime"
	"sort"
	"strconv"
	"strings"
	"sync"
)

// Rec is one trace line.
type Rec struct {
	Fam  string `json:"fam"`
	ID   int    `json:"id"`
	CID  int    `json:"cid"` // id of the abstract case this line was produced from
	Src  string `json:"src"`
	Seed int64  `json:"seed"`
	Case any    `json:"case"`
	Conc any    `json:"conc"`
	Obs  any    `json:"obs"`
}

// CaseIn is one input line (from TLC's state graph or from `gvh rand`).
type CaseIn struct {
	Fam  string          `json:"fam"`
	ID   int             `json:"id"`
	Src  string          `json:"src"`
	Case json.RawMessage `json:"case"`
}

// Family concretises and executes one abstract case; emit may be called several times
// (several concretisations, or the steps of a history).
type Family interface {
	Exec(c CaseIn, rng *rand.Rand, emit func(cas, conc, obs any)) error
	// Rand produces n random abstract cases beyond TLC's bounds.
	Rand(n int, rng *rand.Rand, emit func(cas any)) error
}

// BatchFamily is implemented by families that must see all cases at once (e.g. to materialise many
// cases into one Go module that is loaded once).
type BatchFamily interface {
	ExecAll(cases []CaseIn, seed int64, emit func(c CaseIn, cas, conc, obs any)) error
}

var Families = map[string]Family{}

func Register(name string, f Family) { Families[name] = f }

func Seed() int64 {
	s, _ := strconv.ParseInt(os.Getenv("VERIF_SEED"), 10, 64)
	return s
}

func RNG(seed int64, stream uint64) *rand.Rand {
	return rand.New(rand.NewPCG(uint64(seed), stream))
}

// Panic describes a recovered panic; Site is the first frame inside gengo.
type Panic struct {
	Panicked bool   `json:"panicked"`
	Msg      string `json:"panic_msg"`
	Site     string `json:"panic_site"`
}

// Try runs f and captures a panic.
func Try(f func()) (p Panic) {
	defer func() {
		if r := recover(); r != nil {
			p.Panicked = true
			p.Msg = fmt.Sprint(r)
			if len(p.Msg) > 300 {
				p.Msg = p.Msg[:300]
			}
			pcs := make([]uintptr, 64)
			n := runtime.Callers(2, pcs)
			frames := runtime.CallersFrames(pcs[:n])
			for {
				fr, more := frames.Next()
				if strings.Contains(fr.Function, "github.com/octohelm/gengo") {
					fn := fr.Function
					if i := strings.LastIndex(fn, "/"); i >= 0 {
						fn = fn[i+1:]
					}
					file := fr.File
					if i := strings.Index(file, "/pkg/"); i >= 0 {
						file = file[i+1:]
					} else if i := strings.Index(file, "/devpkg/"); i >= 0 {
						file = file[i+1:]
					}
					p.Site = fmt.Sprintf("%s %s", fn, file)
					break
				}
				if !more {
					break
				}
			}
		}
	}()
	f()
	return
}

// CPs converts a string into code points (invalid bytes become U+FFFD like range does).
func CPs(s string) []int {
	out := make([]int, 0, len(s))
	for _, r := range s {
		out = append(out, int(r))
	}
	return out
}

func Bytes(s string) []int {
	out := make([]int, len(s))
	for i := 0; i < len(s); i++ {
		out[i] = int(s[i])
	}
	return out
}

func FromCPs(cps []int) string {
	var b strings.Builder
	for _, c := range cps {
		b.WriteRune(rune(c))
	}
	return b.String()
}

func FromBytes(bs []int) string {
	b := make([]byte, len(bs))
	for i, c := range bs {
		b[i] = byte(c)
	}
	return string(b)
}

func SortedKeys[V any](m map[string]V) []string {
	ks := make([]string, 0, len(m))
	for k := range m {
		ks = append(ks, k)
	}
	sort.Strings(ks)
	return ks
}

// ReadCases reads NDJSON cases.
func ReadCases(r io.Reader, fn func(CaseIn) error) error {
	br := bufio.NewReaderSize(r, 1<<20)
	for {
		line, err := br.ReadBytes('\n')
		if len(strings.TrimSpace(string(line))) > 0 {
			var c CaseIn
			if e := json.Unmarshal(line, &c); e != nil {
				return fmt.Errorf("bad case line: %v: %.200s", e, line)
			}
			if e := fn(c); e != nil {
				return e
			}
		}
		if err == io.EOF {
			return nil
		}
		if err != nil {
			return err
		}
	}
}

// Out is a concurrency-safe NDJSON writer.
type Out struct {
	mu sync.Mutex
	w  *bufio.Writer
	n  int
}

func NewOut(w io.Writer) *Out { return &Out{w: bufio.NewWriterSize(w, 1<<20)} }

// noNull replaces JSON null (a nil slice that some path of a family forgot to initialise - such paths are reached only when the
// code under test misbehaves) by the empty list: TLC's Json module cannot read null, and a judge that cannot read the trace
// ends the check with an infrastructure error instead of a verdict.
func noNull(x any) any {
	switch t := x.(type) {
	case nil:
		return []any{}
	case map[string]any:
		for k, v := range t {
			t[k] = noNull(v)
		}
		return t
	case []any:
		for i, v := range t {
			t[i] = noNull(v)
		}
		return t
	}
	return x
}

func (o *Out) Write(v any) error {
	b, err := json.Marshal(v)
	if err != nil {
		return err
	}
	if bytes.Contains(b, []byte("null")) {
		var x any
		dec := json.NewDecoder(bytes.NewReader(b))
		dec.UseNumber()
		if err := dec.Decode(&x); err == nil {
			if b2, err := json.Marshal(noNull(x)); err == nil {
				b = b2
			}
		}
	}
	o.mu.Lock()
	defer o.mu.Unlock()
	o.n++
	_, err = o.w.Write(append(b, '\n'))
	return err
}

func (o *Out) N() int { o.mu.Lock(); defer o.mu.Unlock(); return o.n }

func (o *Out) Flush() error { o.mu.Lock(); defer o.mu.Unlock(); return o.w.Flush() }

// Silence redirects os.Stdout (gengo logs there) to /dev/null and returns a restore func.
func Silence() func() {
	old := os.Stdout
	devnull, err := os.OpenFile(os.DevNull, os.O_WRONLY, 0)
	if err != nil {
		return func() {}
	}
	os.Stdout = devnull
	return func() { os.Stdout = old; devnull.Close() }
}
