// Package canon renders a Go value into a canonical, type-annotated text: the same source is compiled into the harness
// (applied to the original value) and copied into generated check programs (applied to the value a rendered literal
// evaluates to). Identifications follow C10: nil and empty slices / maps are the same, pointers are followed.
package canon

import (
	"fmt"
	"reflect"
	"sort"
	"strconv"
	"strings"
)

// Canon returns the canonical text of v.
func Canon(v any) string {
	var b strings.Builder
	write(&b, reflect.ValueOf(v))
	return b.String()
}

func write(b *strings.Builder, v reflect.Value) {
	if !v.IsValid() {
		b.WriteString("invalid")
		return
	}
	switch v.Kind() {
	case reflect.Bool:
		fmt.Fprintf(b, "bool(%v)", v.Bool())
	case reflect.Int, reflect.Int8, reflect.Int16, reflect.Int32, reflect.Int64:
		fmt.Fprintf(b, "int(%d)", v.Int())
	case reflect.Uint, reflect.Uint8, reflect.Uint16, reflect.Uint32, reflect.Uint64, reflect.Uintptr:
		fmt.Fprintf(b, "uint(%d)", v.Uint())
	case reflect.Float32:
		fmt.Fprintf(b, "f32(%s)", strconv.FormatFloat(v.Float()+0, 'b', -1, 32)) // x+0: -0 and +0 are deeply equal
	case reflect.Float64:
		fmt.Fprintf(b, "f64(%s)", strconv.FormatFloat(v.Float()+0, 'b', -1, 64))
	case reflect.String:
		fmt.Fprintf(b, "str(%x)", v.String())
	case reflect.Pointer:
		if v.IsNil() {
			b.WriteString("nil")
			return
		}
		b.WriteString("&")
		write(b, v.Elem())
	case reflect.Interface:
		if v.IsNil() {
			b.WriteString("nil")
			return
		}
		write(b, v.Elem())
	case reflect.Slice, reflect.Array:
		b.WriteString("[")
		for i := 0; i < v.Len(); i++ {
			if i > 0 {
				b.WriteString(",")
			}
			write(b, v.Index(i))
		}
		b.WriteString("]")
	case reflect.Map:
		keys := make([]string, 0, v.Len())
		vals := map[string]reflect.Value{}
		for _, k := range v.MapKeys() {
			var kb strings.Builder
			write(&kb, k)
			keys = append(keys, kb.String())
			vals[kb.String()] = v.MapIndex(k)
		}
		sort.Strings(keys)
		b.WriteString("{")
		for i, k := range keys {
			if i > 0 {
				b.WriteString(",")
			}
			b.WriteString(k)
			b.WriteString(":")
			write(b, vals[k])
		}
		b.WriteString("}")
	case reflect.Struct:
		b.WriteString("struct{")
		for i := 0; i < v.NumField(); i++ {
			if i > 0 {
				b.WriteString(",")
			}
			b.WriteString(v.Type().Field(i).Name)
			b.WriteString("=")
			write(b, v.Field(i))
		}
		b.WriteString("}")
	default:
		fmt.Fprintf(b, "other(%s)", v.Kind())
	}
}
