"""Per-property decision procedures (DESIGN.md section 6). Each function returns the exit code."""
import json
import os

import vlib
from vlib import Infra, log


def _ids(cases, fam, start=0):
    out = []
    for i, c in enumerate(cases):
        c = dict(c)
        c["fam"] = c.get("fam", fam)
        c["id"] = start + i + 1
        c.setdefault("src", "tlc")
        out.append(c)
    return out


def run_family(ctx, fam, module, gen_cfgs, judge, rand_n=0, a_cfgs=(), exec_timeout=3600, shard=8000,
               extra_cases=(), simulate=None, by_history=False, a_workers=4, a_timeout=1800, env_extra=None,
               must_cover=None):
    """Loops A, B, C for one family. Returns dict(trace=[...], bad=[...], stats={...}, n_cases=int)."""
    tier = ctx.tier
    for cfg in a_cfgs:
        vlib.tlc_check(ctx, module, cfg, workers=a_workers, timeout=a_timeout,
                       coverage=bool(must_cover) and tier == "thorough", must_cover=must_cover or ())
    cases = []
    for cfg in gen_cfgs:
        cases += vlib.tlc_generate(ctx, module, cfg, env_extra=env_extra)
    if simulate:
        cases += vlib.tlc_generate(ctx, module, simulate["cfg"], simulate=simulate, env_extra=env_extra)
    cases = _ids(cases, fam)
    d = ctx.sub(fam)
    cases_path = os.path.join(d, "cases.ndjson")
    if rand_n:
        rp = os.path.join(d, "rand.ndjson")
        vlib.gvh(ctx, ["rand", "--family", fam, "--n", str(rand_n), "--out", rp, "--start-id", str(len(cases) + 1000000)])
        cases += vlib.read_ndjson(rp)
    for c in extra_cases:
        cases.append(c)
    vlib.write_ndjson(cases_path, cases)
    trace_path = os.path.join(d, "trace.ndjson")
    p = vlib.gvh(ctx, ["exec", "--family", fam, "--in", cases_path, "--out", trace_path], timeout=exec_timeout)
    log("[exec] %s: %s" % (fam, p.stdout.strip().splitlines()[-1] if p.stdout.strip() else ""))
    if getattr(ctx, "selftest", False):
        _corrupt_one(ctx, fam, trace_path)
    bad, stats = vlib.tlc_judge(ctx, judge, judge + ".cfg", trace_path, shard=shard, by_history=by_history)
    trace = vlib.read_ndjson(trace_path)
    return {"trace": trace, "bad": bad, "stats": stats, "n_cases": len(cases), "family": fam,
            "cases": {c["id"]: c["case"] for c in cases}}


# ---- binding demonstration (bin/check <ID> --selftest): flip ONE recorded observation per family and require the judge to
# report exactly that line - the anti-vacuity test of Loop C (DESIGN.md section 2, "Binding demonstrations")

def _flip(fam, r, prop):
    o = r["obs"]
    if fam == "camel":
        if not o["words"]:
            return False
        o["words"][0] = o["words"][0][:-1]
    elif fam == "template":
        if o["panicked"]:
            return False
        o["out"] = o["out"] + [120]
    elif fam == "typeref":
        if o["parse_err"] or o["panicked"]:
            return False
        o["printed"] = o["printed"] + ["x"]
    elif fam == "tracker":
        if not o["steps"] or not o["steps"][-1]["imports"]:
            return False
        o["steps"][-1]["imports"][0]["name"] = "type"
    elif fam == "comments":
        if r["case"]["part"] != "layout" or not o.get("decls"):
            return False
        o["decls"][0]["doc_lines"] = o["decls"][0]["doc_lines"] + ["not in the source"]
    elif fam == "pipeline":
        if r["case"]["step"]["op"] != "run" or o.get("failed") or o.get("died"):
            return False
        if prop == "C02":
            if not o["calls"]:
                return False
            o["calls"][0]["sum_same"] = False
        elif prop in ("C04", "C05"):
            return False        # needs the whole history: see _flip_c04
        elif prop == "C08":
            if not r["case"]["step"]["all"] or not o["post"]["sum_lines"]:
                return False
            o["post"]["sum_lines"][0][1] = "h1:bogus"
        else:
            o["changes"] = o["changes"] + [{"path": "p/user.go", "pkg": "p", "base": "user.go", "base_dot": False, "is_sum": False, "how": "modified"}]
    elif fam == "dispatch":
        if not o["calls"]:
            return False
        o["calls"] = o["calls"][:-1]
    elif fam == "universe":
        o["types"] = o["types"] + ["NotInScope"]
    elif fam == "results":
        if o["declared_n"] == 0 or o["fatal"] or o["timeout"] or o["panicked"]:
            return False
        o["lens"] = []
    elif fam == "genfile":
        if not o["written"]:
            return False
        if prop == "C03":
            o["import_paths"] = o["import_paths"] + ["made/up"]
        else:
            o["gofmt_fixed"] = not o["gofmt_fixed"]
    elif fam == "typelit":
        o["got"] = "int" if o["got"] != "int" else "string"
    elif fam == "valuelit":
        if not o["ran"]:
            return False
        o["canon_got"] = o["canon_got"] + "x"
    elif fam == "runtimedoc":
        if not o["has_method"]:
            return False
        o["type_doc"] = {"lines": o["type_doc"]["lines"], "ok": not o["type_doc"]["ok"]}
    elif fam == "deepcopy":
        if not o["ran"]:
            return False
        o["aliased"] = ["made.up"]
    elif fam == "partial":
        if not o["ran"]:
            return False
        o["nil_to_nil"] = not o["nil_to_nil"]
    elif fam == "inflect":
        if r["case"]["kind"] == "conc" or o["panicked"]:
            return False
        o["again"] = not o["again"]
    elif fam == "sumfile":
        if not o["loaded"]:
            return False
        o["loaded"] = o["loaded"][:-1]
    else:
        return False
    return True


def _flip_c04(recs):
    """C04 / C05 are judged against the memo of earlier runs of the same history: swap two GenerateType calls of a package in the
    LAST run of a history in which an earlier successful run processed the same package with the same inputs and generators."""
    by = {}
    for r in recs:
        by.setdefault(r["case"]["hist"], []).append(r)
    for h in sorted(by):
        runs = [r for r in by[h] if r["case"]["step"]["op"] == "run" and not r["obs"].get("failed") and not r["obs"].get("died")]
        if len(runs) < 2 or runs[-1] is not by[h][-1] or by[h][-1]["case"]["beh"]:
            continue
        last = runs[-1]
        for p in ("p", "q", "r"):
            tc = [c for c in last["obs"]["calls"] if c["kind"] == "type" and c["pkg"] == p]
            if len(tc) < 2:
                continue
            for e in runs[:-1]:
                if (e["case"]["step"]["gens"] == last["case"]["step"]["gens"] and e["obs"]["pre"]["pkgs"][p]["in"] == last["obs"]["pre"]["pkgs"][p]["in"]
                        and len([c for c in e["obs"]["calls"] if c["kind"] == "type" and c["pkg"] == p]) == len(tc)):
                    calls = last["obs"]["calls"]
                    i, j = calls.index(tc[0]), calls.index(tc[1])
                    calls[i], calls[j] = calls[j], calls[i]
                    return last
    return None


def _corrupt_one(ctx, fam, trace_path):
    recs = vlib.read_ndjson(trace_path)
    if fam == "pipeline" and ctx.prop in ("C04", "C05"):
        r = _flip_c04(recs)
        if r is None:
            raise Infra("selftest: no history of family pipeline could be corrupted")
        vlib.write_ndjson(trace_path, recs)
        ctx.corrupted = getattr(ctx, "corrupted", []) + [(fam, r["id"])]
        log("[selftest] %s: swapped two calls in the last run of a history, trace line id=%s" % (fam, r["id"]))
        return
    start = (ctx.seed * 7919) % max(1, len(recs))
    for k in range(len(recs)):
        r = recs[(start + k) % len(recs)]
        if _flip(fam, r, ctx.prop):
            vlib.write_ndjson(trace_path, recs)
            ctx.corrupted = getattr(ctx, "corrupted", []) + [(fam, r["id"])]
            log("[selftest] %s: corrupted one observation of trace line id=%s" % (fam, r["id"]))
            return
    raise Infra("selftest: no line of family %s could be corrupted" % fam)


def replay(ctx, path):
    """Re-execute the recorded case on the current tree and judge it again."""
    blob = json.load(open(path))
    if blob.get("property") != ctx.prop:
        raise Infra("replay file is for %s" % blob.get("property"))
    ctx.seed = int(blob.get("seed", ctx.seed))
    fam = blob["family"]
    rec = blob["record"]
    spec = FAMILIES.get(fam)
    if spec is None:
        raise Infra("no replay route for family %s" % fam)
    if spec.get("race"):
        vlib.build_harness_race(ctx)
    case = {"fam": fam, "id": rec.get("cid", rec["id"]), "src": rec.get("src", "tlc"), "case": rec.get("case_full", rec["case"])}
    res = run_family(ctx, fam, spec["module"], [], spec["judge"], extra_cases=[case], by_history=spec.get("by_history", False))
    fails = vlib.collect_failures(res["trace"], res["bad"], fam, only_prefix=ctx.prop)
    want = set(blob["failed"])
    still = [f for f in fails if set(f["failed"]) & want]
    if still:
        log("VIOLATION property=%s replay=%s" % (ctx.prop, path))
        log("  reproduced: %s" % ",".join(still[0]["failed"]))
        log("  obs: %s" % json.dumps(still[0]["rec"].get("obs"), separators=(",", ":"))[:800])
        return 1
    log("replay: not reproduced on the current tree (conjuncts %s now hold)" % ",".join(sorted(want)))
    return 0


FAMILIES = {
    "camel": {"module": "CamelCase", "judge": "CamelCaseTrace"},
    "typeref": {"module": "TypeRef", "judge": "TypeRefTrace"},
    "template": {"module": "Template", "judge": "TemplateTrace"},
    "results": {"module": "MC_FuncResults", "judge": "FuncResultsTrace"},
    "universe": {"module": "MC_Universe", "judge": "UniverseTrace"},
    "dispatch": {"module": "Dispatch", "judge": "DispatchTrace"},
    "sumfile": {"module": "MC_SumFile", "judge": "SumFileTrace"},
    "pipeline": {"module": "MC_PipelineHist", "judge": "PipelineTrace", "by_history": True},
    "genfile": {"module": "GenFile", "judge": "GenFileTrace"},
    "partial": {"module": "MC_PartialStruct", "judge": "PartialStructTrace"},
    "deepcopy": {"module": "DeepCopy", "judge": "DeepCopyTrace"},
    "runtimedoc": {"module": "MC_RuntimeDoc", "judge": "RuntimeDocTrace"},
    "valuelit": {"module": "ValueLit", "judge": "ValueLitTrace"},
    "typelit": {"module": "TypeLit", "judge": "TypeLitTrace"},
    "tracker": {"module": "MC_ImportTracker", "judge": "ImportTrackerTrace"},
    "comments": {"module": "Comments", "judge": "CommentsTrace"},
    "inflect": {"module": "Inflector", "judge": "InflectorTrace", "race": True},
}


def _samples(trace, n=4):
    if not trace:
        return []
    step = max(1, len(trace) // n)
    out = []
    for r in trace[::step][:n]:
        out.append({"case": r.get("case"), "conc": r.get("conc"), "obs": r.get("obs"), "src": r.get("src")})
    return out


def _distinct(trace, pred, key=lambda r: json.dumps([r.get("case"), r.get("conc")], sort_keys=True)):
    seen = set()
    for r in trace:
        if pred(r):
            seen.add(key(r))
    return len(seen)


# ----------------------------------------------------------------------------------- C19

def check_C16(ctx):
    t = ctx.tier
    res = run_family(ctx, "runtimedoc", "MC_RuntimeDoc", ["RuntimeDoc_gen_%s.cfg" % t], "RuntimeDocTrace", rand_n=300 if ctx.quick() else 5000, shard=3000, exec_timeout=5400)
    fails = vlib.collect_failures(res["trace"], res["bad"], "runtimedoc", only_prefix="C16")
    tr = res["trace"]
    cov = {
        "traces_validated_against_impl": len(tr),
        "evaluations": len(tr),
        "distinct_nontrivial": _distinct(tr, lambda r: len(r["case"]["doc"]) > 0 or r["case"]["kind"] in ("struct", "genericStruct"), key=lambda r: json.dumps(r["case"], sort_keys=True)),
        "rule": "RuntimeDoc.tla enumerates type cases: 8 kinds (struct, generic struct, defined scalar / map / slice / func, interface, unexported type) x doc comments made of line classes "
                "(plain, quotes, backslashes, backquotes, %v / %%, @name, Unicode, interior blank line, line starting with the type name, +tag, @tag lines) x 9 field patterns (exported, "
                "unexported, anonymous struct type, empty named struct, embedded by value / by pointer, no exported field, named covered struct, two fields) x 7 field doc patterns. Every "
                "case is real Go source in a generated module; the real runtimedoc generator runs through gengo; the module is compiled with a probe program that calls RuntimeDoc(), "
                "RuntimeDoc(field) for every field, the embedded struct's field, and an unknown name; RuntimeDocTrace.tla computes the required answers from the recorded source lines. "
                "Non-trivial = cases with a doc comment or fields.",
        "exhaustive": True,
        "samples": [{"case": r["case"], "source": r["conc"]["source"][:400], "type_doc": r["obs"]["type_doc"]} for r in tr[:: max(1, len(tr) // 3)][:3]],
    }
    return vlib.finish(ctx, "exploration", cov, [
        "the Go compiler and the compiled probe program are the oracle for 'compiles' and 'returns'; the specification computes the expected answers from the source lines the harness wrote",
        "canonical comment text (no leading / trailing blanks); blank doc lines only in the interior of a comment group and of its non-tag lines, never doubled; field docs do not start with the field's name; embedded fields carry no doc and are exported covered structs",
        "[[embed]] doc references are not generated",
    ], fails)


def check_C17(ctx):
    t = ctx.tier
    res = run_family(ctx, "deepcopy", "DeepCopy", ["DeepCopy_gen_%s.cfg" % t], "DeepCopyTrace", rand_n=20 if ctx.quick() else 400, a_cfgs=["DeepCopy_A.cfg"], shard=3000,
                     exec_timeout=7200)
    fails = vlib.collect_failures(res["trace"], res["bad"], "deepcopy", only_prefix="C17")
    tr = res["trace"]
    cov = {
        "traces_validated_against_impl": len(tr),
        "evaluations": len(tr),
        "distinct_nontrivial": _distinct(tr, lambda r: r["obs"].get("container_paths", 0) > 0 or len(r["case"]["fields"]) > 1, key=lambda r: json.dumps(r["case"], sort_keys=True)),
        "rule": "Loop A: heap model - for every struct shape of the model (containers at the top level and below one or two levels of by-value nesting) and every mutation path, a copy "
                "that allocates fresh containers at every depth keeps the original unchanged (TLC; sharing shown when nested containers are assigned). Loop B: every selection of up to the "
                "tier bound of 15 field kinds (scalar, string, []int, []string, map[string]int, same-package struct by value, two-level nesting, defined scalar, defined map, map of defined "
                "scalars, error, interface, bare type parameter, field of a generic instantiation, untagged dependency) x variants (package tag, generic root, interfaces tag, type-level "
                "tag only) is one generated package; the real deepcopy generator runs through gengo twice per package (first-run output vs later run), the module is compiled, and a "
                "reflective probe fills a value, copies it and reports nil->nil, DeepEqual, the alias relation of every container path and whether any mutation of the copy shows in the "
                "original. Non-trivial = cases with a container path or several fields.",
        "exhaustive": True,
        "probed": sum(1 for r in tr if r["obs"]["ran"]),
        "container_paths_mutated": sum(r["obs"].get("container_paths", 0) for r in tr),
        "samples": [{"case": r["case"], "source": r["conc"]["source"][:300], "obs": {k: r["obs"][k] for k in ("stable", "equal", "aliased", "leaked")}} for r in tr[:: max(1, len(tr) // 3)][:3]],
    }
    return vlib.finish(ctx, "exploration", cov, [
        "the compiler and a reflective probe program are the oracle; containers are followed through by-value struct nesting only (interfaces and pointers are outside the no-sharing clause)",
        "when first-run and later-run output differ, compilation and behaviour are judged on the first run's output",
    ], fails)


def check_C18(ctx):
    t = ctx.tier
    res = run_family(ctx, "partial", "MC_PartialStruct", ["PartialStruct_gen_%s.cfg" % t], "PartialStructTrace", shard=4000, exec_timeout=7200)
    fails = vlib.collect_failures(res["trace"], res["bad"], "partial", only_prefix="C18")
    tr = res["trace"]
    cov = {
        "traces_validated_against_impl": len(tr),
        "evaluations": len(tr),
        "distinct_nontrivial": _distinct(tr, lambda r: len(r["case"]["omit"]) > 0 or r["case"]["replace"] != "none" or r["case"]["errshape"] != "none", key=lambda r: json.dumps(r["case"], sort_keys=True)),
        "rule": "PartialStruct.tla enumerates origin structs as ordered selections of up to the tier bound of 9 field kinds (scalar, slice, map, pointer, time.Time, a type of another local "
                "package, error, interface, nested struct) x 4 rotations of tag classes (none, json, tags containing dots, arbitrary text with quotes / %v / @name) x omit sets {none, first, last, "
                "all} x replace {none, type only, type and tag} + three error shapes (not a struct, a struct not defined from a named type, origin not a struct), and defines Retained(origin, "
                "omit, replace). The real partialstruct generator runs through gengo, the module is compiled, and a reflective probe reports the generated struct's fields (reflect.Type and tag "
                "identity with the origin / the replacement), DeepCopyAs on nil, equality of retained and zero-ness of omitted fields. Non-trivial = cases with omit, replace or an error shape.",
        "exhaustive": True,
        "probed": sum(1 for r in tr if r["obs"]["ran"]),
        "samples": [{"case": r["case"], "generated": r["conc"].get("generated", "")[:400]} for r in tr[:: max(1, len(tr) // 3)][:3]],
    }
    return vlib.finish(ctx, "exploration", cov, [
        "compiler and reflective probe are the oracle; identical types = equal reflect.Type; a replaced field's type is another generated partial struct (the only kind of replacement whose copy code can compile)",
    ], fails)


def check_C19(ctx):
    t = ctx.tier
    res = run_family(ctx, "camel", "CamelCase", ["CamelCase_gen_%s.cfg" % t], "CamelCaseTrace",
                     rand_n=3000 if ctx.quick() else 60000, a_cfgs=["CamelCase_A_%s.cfg" % t])
    fails = vlib.collect_failures(res["trace"], res["bad"], "camel", only_prefix="C19")
    tr = res["trace"]
    cov = {
        "traces_validated_against_impl": len(tr),
        "evaluations": len(tr),
        "distinct_nontrivial": _distinct(tr, lambda r: len(set(r["conc"]["cls"])) >= 2 or not r["conc"]["valid"]),
        "rule": "TLC enumerates every rune-class string over {lower,upper,digit,other} up to the tier bound; each is "
                "concretised three times (ASCII, 2-byte, 3/4-byte runes) and run through camelcase.Split and the six "
                "converters (twice each, and via the pkg/gengo aliases); plus seeded random strings over all of Unicode "
                "and raw bytes. Non-trivial = distinct inputs with at least two rune classes, or invalid UTF-8.",
        "exhaustive": True,
        "samples": _samples(tr),
        "drift_vs_scanner_model": res["stats"].get("drift", 0),
        "abstract_cases": res["n_cases"],
    }
    return vlib.finish(ctx, "model_checking", cov, [
        "rune classes are those of package unicode (IsLower/IsUpper/IsDigit), as the scanner's documentation states",
        "exhaustive over class strings up to the bound only; beyond it seeded random exploration",
        "word boundaries are not prescribed by C19: disagreement with the scanner model is reported as drift only",
        "one round of 12 goroutines calls the converters concurrently on ten inputs: a pure function's answers must not depend on concurrent callers",
    ], fails)


def _depth(t):
    return 1 + max([_depth(a) for a in t.get("args", [])] or [0])


def check_C13(ctx):
    t = ctx.tier
    res = run_family(ctx, "universe", "MC_Universe", ["Universe_gen_%s.cfg" % t], "UniverseTrace", rand_n=200 if ctx.quick() else 3000,
                     a_cfgs=["Universe_A1.cfg", "Universe_A2.cfg"], shard=700)
    vlib.tlc_expect_violation(ctx, "MC_Universe", "Universe_A1_bugdemo.cfg", "C13_TablesAreScopeView")
    # unbounded: any set of declared objects, any visiting order (Universe.tla itself, machine 1)
    proved = vlib.tlaps_prove(ctx, "proofs/UniverseTablesProof.tla", with_modules=("Universe.tla", "proofs/stubs/Json.tla"))
    fails = vlib.collect_failures(res["trace"], res["bad"], "universe", only_prefix="C13")
    tr = res["trace"]
    corpus = [r for r in tr if r["case"]["kind"] == "corpus"]
    cov = {
        "tlaps_obligations_discharged": proved,
        "traces_validated_against_impl": len(tr),
        "evaluations": len(tr),
        "distinct_nontrivial": _distinct(tr, lambda r: r["case"]["kind"] == "corpus" or len(r["case"]["features"]) >= 2,
                                         key=lambda r: json.dumps([r["case"]["features"], r["case"].get("pkg") if r["case"]["kind"] == "corpus" else ""])),
        "rule": "Loop A: filling name-keyed tables from an arbitrarily ordered Defs map equals the package-scope view for every order (with the scope filter; counterexample "
                "without), and DFS registration over an import DAG resolves every import for every visiting order and root set (iff the package object is created after its "
                "imports). Loop B: every selection of up to the tier bound out of 22 source features (shadowing local types / aliases / constants, type parameters named like "
                "package-level types, generic and pointer receivers, grouped declarations, init and blank functions, interface types, an import chain) is one synthetic package, loaded "
                "60 per module with types.Load; plus the real corpus: every package in the dependency closure of gengo's own module. For each package the key sets of Types/Constants/"
                "Functions, object identity, MethodsOf vs types.Named.Method, Imports() vs Universe.Package, LocateInPackage and SourceDir are compared with go/types / file positions. "
                "Non-trivial = corpus packages and synthetic packages with >= 2 features.",
        "exhaustive": True,
        "corpus_packages": len(corpus),
        "corpus_names_compared": sum(len(r["obs"]["scope_types"]) + len(r["obs"]["scope_consts"]) + len(r["obs"]["scope_funcs"]) for r in corpus),
        "samples": [{"case": r["case"], "obs": {k: r["obs"][k] for k in ("types", "scope_types", "funcs", "methods", "imports_nil")}} for r in tr[:: max(1, len(tr) // 3)][:3]],
    }
    return vlib.finish(ctx, "model_checking", cov, [
        "go/types package scopes, types.Named.Method and go/packages file positions are the oracle ('the type checker's view')",
        "MethodsOf is compared for non-interface named types only (whether interface methods are 'declared methods' is left open by the statement)",
        "init and blank-named functions are set aside as the statement says",
        "map iteration orders of the real loader are sampled, all orders only on the model",
    ], fails)


def check_C14(ctx):
    res = run_family(ctx, "results", "MC_FuncResults", ["FuncResults_gen.cfg"], "FuncResultsTrace", rand_n=1, a_cfgs=["FuncResults_A.cfg"], shard=4000,
                     exec_timeout=5400)
    if os.path.exists(os.path.join(vlib.SPECS, "FuncResults_A_bugdemo.cfg")):
        vlib.tlc_expect_violation(ctx, "MC_FuncResults", "FuncResults_A_bugdemo.cfg", "C14_Terminates")
    # unbounded: any finite set of functions, any number of results, any call graph (FuncResults.tla itself)
    proved = vlib.tlaps_prove(ctx, "proofs/FuncResultsProof.tla", with_modules=("FuncResults.tla", "proofs/stubs/Json.tla"))
    fails = vlib.collect_failures(res["trace"], res["bad"], "results", only_prefix="C14")
    tr = res["trace"]
    corpus = [r for r in tr if r["case"]["kind"] == "corpus"]
    cov = {
        "tlaps_obligations_discharged": proved,
        "traces_validated_against_impl": len(tr),
        "evaluations": len(tr),
        "distinct_nontrivial": _distinct(tr, lambda r: r["obs"]["declared_n"] > 0, key=lambda r: json.dumps([r["case"].get("pkg"), r["case"].get("func"), r["case"].get("shapes")])),
        "rule": "Loop A: the (function, result index) depth-first search with visited marks terminates for every call graph of the model incl. self / mutual recursion and cross-index "
                "forwarding (TLC; unbounded descent shown when only the first index of a function is marked). Loop B: every assignment of 13 source shapes (literal-only returns with "
                "operators, (T, error) pairs, self and mutual recursion, closure argument with more results than the callee, named results, multi-value forwarding to a sibling, foreign "
                "call, interface call, assigned variable) to three functions is one generated package (2197 packages); plus every function and method of the dependency closure of gengo's own "
                "module. ResultsOf runs in a supervised child (48 MB stack cap, 8 s per unit; a unit that kills the child is recorded and the child restarted behind it). "
                "Non-trivial = units with at least one declared result.",
        "exhaustive": True,
        "corpus_units": len(corpus),
        "corpus_packages": len({r["case"]["pkg"] for r in corpus}),
        "units_fatal_or_timeout": sum(1 for r in tr if r["obs"]["fatal"] or r["obs"]["timeout"]),
        "samples": [{"case": r["case"], "obs": {k: r["obs"][k] for k in ("declared_n", "n", "lens", "alts", "again_equal")}} for r in tr[:: max(1, len(tr) // 4)][:4]],
    }
    return vlib.finish(ctx, "model_checking", cov, [
        "an alternative counts as possible when it is a constant, or its go/types type is AssignableTo the declared result type (types.AssignableTo is the oracle)",
        "exact alternatives are judged only for the literal-only shapes whose expected lists the specification states",
        "units are the package-scope functions and the declared methods of package-scope named types",
    ], fails)


def check_C15(ctx):
    t = ctx.tier
    gens = ["TypeRef_gen_%s%s.cfg" % (t, k) for k in ("", "2", "3")]
    res = run_family(ctx, "typeref", "TypeRef", gens, "TypeRefTrace", rand_n=3000 if ctx.quick() else 50000,
                     a_cfgs=["TypeRef_A_%s.cfg" % t], shard=6000)
    if res["stats"].get("insane", 0):
        raise Infra("typeref: harness printing of %d trees disagrees with the specification's printer" % res["stats"]["insane"])
    fails = vlib.collect_failures(res["trace"], res["bad"], "typeref", only_prefix="C15")
    tr = res["trace"]
    cov = {
        "traces_validated_against_impl": len(tr),
        "evaluations": len(tr),
        "distinct_nontrivial": _distinct(tr, lambda r: _depth(r["case"]["tree"]) >= 3, key=lambda r: json.dumps(r["conc"]["s"])),
        "rule": "TLC enumerates every reference tree within (depth, width, leaf set) bounds as an initial state; each is printed, "
                "run through ParseTypeRef/String, ParseRef/Ref, PkgImportPathAndExpose and rendered with snippet.ID through a raw namer; "
                "plus seeded random trees up to depth 6, width 5. Non-trivial = distinct reference strings whose bracket nesting depth is >= 2 "
                "(tree depth >= 3), i.e. those that need a depth counter rather than a flag.",
        "exhaustive": True,
        "samples": [{"s": "".join(r["conc"]["s"]), "obs": r["obs"]} for r in tr[:: max(1, len(tr) // 3)][:3]],
        "abstract_cases": res["n_cases"],
    }
    return vlib.finish(ctx, "model_checking", cov, [
        "well-formed references only (the grammar of C15); paths containing /vendor/ are not generated (PkgImportPathAndExpose strips them by design)",
        "which import name is chosen is not prescribed: the logged name is bound and only consistency is checked",
        "exhaustive within (depth, width, leaf set) bounds; random beyond",
    ], fails)


def check_C03(ctx):
    t = ctx.tier
    proved = vlib.tlaps_prove(ctx, "proofs/ImportTableProof.tla")
    res = run_family(ctx, "tracker", "MC_ImportTracker", ["ImportTracker_gen_%s.cfg" % t, "ImportTracker_gen_%s2.cfg" % t], "ImportTrackerTrace",
                     rand_n=4000 if ctx.quick() else 60000, a_cfgs=["ImportTracker_A.cfg"], shard=5000)
    vlib.tlc_expect_violation(ctx, "MC_ImportTracker", "ImportTracker_A_bugdemo.cfg", "DesignAllNamed")
    fails = vlib.collect_failures(res["trace"], res["bad"], "tracker", only_prefix="C03")
    # pipeline side of C03 (import block of written files = referenced packages): judged by the genfile family
    gf = genfile_family(ctx, only="C03")
    fails += gf["fails"]
    tr = res["trace"]
    cov = {
        "traces_validated_against_impl": len(tr) + gf["lines"],
        "evaluations": sum(len(r["case"]["steps"]) for r in tr) + gf["lines"],
        "distinct_nontrivial": _distinct(tr, lambda r: len({s["path"] for s in r["case"]["steps"]}) >= 2, key=lambda r: json.dumps(r["case"], sort_keys=True)),
        "rule": "TLC enumerates every sequence of references over a 14-path universe built to collide (same last segment, vN suffixes, apis, keyword and "
                "digit-leading segments, punctuation-only differences, std name clash) plus the file's own package, closed by one reference of each kind "
                "(Ref, PkgExpose, go/types type literal, generic instantiation string); each history is rendered through one raw namer / import tracker with the "
                "full import table logged after every step; ImportTrackerTrace.tla binds the logged names and checks exactness, stability, validity, uniqueness, "
                "the printed qualifier and ask-twice. Loop A: the candidate search with fall-back is total for all addition orders (and not without it); "
                "proofs/ImportTableProof.tla proves with TLAPS, for unbounded path / name universes, that a table which binds each new path to some unused valid name stays "
                "functional, injective, valid and only grows. "
                "Random path sets from a path grammar beyond. evaluations = reference steps; non-trivial = histories with >= 2 distinct paths.",
        "exhaustive": True,
        "histories": len(tr),
        "tlaps_obligations_discharged": proved,
        "genfile_lines": gf["lines"],
        "samples": [{"case": r["case"], "obs": r["obs"]} for r in tr[:: max(1, len(tr) // 3)][:3]],
        "abstract_cases": res["n_cases"],
    }
    return vlib.finish(ctx, "model_checking", cov, [
        "which name is chosen is not prescribed; names shadowing predeclared identifiers are accepted (valid identifiers)",
        "identifier validity is go/token.IsIdentifier as logged by the harness plus the specification's keyword set",
    ], fails)


def genfile_family(ctx, only=None):
    """The genfile family (C01 and the written-file side of C03): returns failures restricted to `only`."""
    t = ctx.tier
    res = run_family(ctx, "genfile", "GenFile", ["GenFile_gen_%s.cfg" % t, "GenFile_gen_%s2.cfg" % t, "GenFile_gen_%s3.cfg" % t], "GenFileTrace",
                     rand_n=150 if ctx.quick() else 3000, a_cfgs=["GenFile_A.cfg"] if only == "C01" else [], shard=3000, exec_timeout=7200)
    fails = vlib.collect_failures(res["trace"], res["bad"], "genfile", only_prefix=only)
    return {"fails": fails, "lines": len(res["trace"]), "trace": res["trace"], "n_cases": res["n_cases"]}


def check_C01(ctx):
    gf = genfile_family(ctx, only="C01")
    tr = gf["trace"]
    cov = {
        "traces_validated_against_impl": len(tr),
        "evaluations": len(tr),
        "distinct_nontrivial": _distinct(tr, lambda r: any(f["noise"] != "none" or f["refs"] for f in r["case"]["frags"]), key=lambda r: json.dumps(r["case"], sort_keys=True)),
        "rule": "GenFile.tla enumerates every sequence of Render fragments up to the tier bound over 8 declaration kinds (func, method, var, const, type, grouped vars, free comment, "
                "//go: directive + func) x 7 whitespace noises (leading / trailing blank lines, odd spacing with tabs, no final newline, two declarations on one line, one declaration split "
                "over two Render calls) x 4 reference modes (none, std, std + same-named third-party package, + versioned package and the own package) in modules with go 1.24 / 1.18 / "
                "1.21 and a dot-less module path; each case is a package of a real module, generated through gengo's pipeline by a scripted generator, and the written file is read back: "
                "go/parser, header, package clause, declaration names in order, token-for-token equality with the rendered body, gofmt and gofumpt fixed points, import block, go build. "
                "Plus seeded random longer sequences. Non-trivial = distinct cases with noise or references.",
        "exhaustive": True,
        "samples": [{"case": r["case"], "file": r["conc"].get("file", "")[:600]} for r in tr[:: max(1, len(tr) // 3)][:3]],
        "abstract_cases": gf["n_cases"],
    }
    return vlib.finish(ctx, "model_checking", cov, [
        "go/parser, go/format, mvdan.cc/gofumpt v0.8.0 (the version in gengo's go.mod) and `go build` are the oracles the statement itself names; they are not modelled",
        "'altered only by formatting' = the file and the rendered text have the same sequence of top-level specs, each with the same token sequence (grouping of adjacent declarations, white space and semicolons ignored), and the same non-empty comment lines; integer literals are compared by value (gofumpt respells legacy octal literals)",
        "every fragment is syntactically valid Go on its own (or together with the other half of a split declaration)",
    ], gf["fails"])


PIPELINE_A = {"quick": ["Pipeline_sib2_quick.cfg", "Pipeline_nested2_quick.cfg", "Pipeline_root2_quick.cfg"],
              "thorough": ["Pipeline_sib2_thorough.cfg", "Pipeline_nested2_thorough.cfg", "Pipeline_root2_thorough.cfg", "Pipeline_sib3_thorough.cfg"]}

# design-level negative controls: one modelled decision switched to the wrong alternative must yield a counterexample
PIPELINE_DEMOS = {
    "C08": [("Pipeline_root2_bugdemo.cfg", "C08_Converges"), ("Pipeline_sib2_savedemo.cfg", "C08_SumAfterSuccess"),
            ("Pipeline_sib2_unknowndemo.cfg", "C08_SkipOnlyIfUnchanged")],
    "C07": [("Pipeline_sib2_keepdemo.cfg", "C07_ExistsIffRendered")],
}

PIPELINE_ASSUME = [
    "every run executes in a fresh process (gvh child pipeline-run); the fixture module has packages p, q, r (r imports p), two enabled types each",
    "logged directory hashes (golang.org/x/mod dirhash, computed by the harness just before the run) are bound, not recomputed by the specification",
    "process death = os.Exit inside a GenerateType / deferred callback; crash points inside WriteToFile / Save are not enumerated (C02 lists callbacks and package positions)",
    "after a failed run the set of sibling files already written may depend on sync.Map order; only successful runs are compared for determinism",
]


def pipeline_check(ctx, menu, rule, nontrivial, rand_n=0, extra_gen=(), only=None, extra_fails=(), extra_lines=0, level="model_checking"):
    t = ctx.tier
    for cfg in PIPELINE_A[t]:
        vlib.tlc_check(ctx, "MC_Pipeline", cfg, workers=vlib.NCPU, timeout=2400)
    for cfg, inv in PIPELINE_DEMOS.get(menu, ()):
        vlib.tlc_expect_violation(ctx, "MC_Pipeline", cfg, inv)
    proved = 0
    if menu == "C02" or (menu in ("C07", "C08") and not ctx.quick()):
        # unbounded: the sum / inputs / current-package invariants of Pipeline.tla itself, for any packages, generators, runs
        proved = vlib.tlaps_prove(ctx, "proofs/PipelineSumProof.tla", with_modules=("Pipeline.tla", "PipelineBase.tla"))
    gens = ["PipelineHist_%s_%s.cfg" % (menu, t)] + list(extra_gen)
    res = run_family(ctx, "pipeline", "MC_PipelineHist", gens, "PipelineTrace", rand_n=rand_n, shard=6000, by_history=True, exec_timeout=7200)
    fails = list(extra_fails) + vlib.collect_failures(res["trace"], res["bad"], "pipeline", only_prefix=only or ctx.prop, cases=res["cases"])
    tr = res["trace"]
    runs = [r for r in tr if r["case"]["step"]["op"] == "run"]
    hists = {r["cid"] for r in tr}
    cov = {
        "traces_validated_against_impl": len(hists),
        "evaluations": len(runs),
        "distinct_nontrivial": len({r["cid"] for r in runs if nontrivial(r)}),
        "rule": rule,
        "exhaustive": True,
        "tlaps_obligations_discharged": proved,
        "histories": len(hists),
        "other_family_lines": extra_lines,
        "steps": len(tr),
        "runs_executed": len(runs),
        "runs_failed_or_died": sum(1 for r in runs if r["obs"]["failed"] or r["obs"]["died"]),
        "runs_with_cached_skip": sum(1 for r in runs if r["case"]["step"]["all"] and not r["obs"]["failed"] and not r["obs"]["died"]
                                     and len({c["pkg"] for c in r["obs"]["calls"]}) < len(r["obs"]["post"]["sum_lines"])),
        "samples": [{"layout": r["case"]["layout"], "beh": r["case"]["beh"], "history": res["cases"][r["cid"]]["steps"],
                     "last_obs": {k: r["obs"][k] for k in ("err", "died", "changes")}} for r in runs[:: max(1, len(runs) // 3)][:3]],
    }
    return vlib.finish(ctx, level, cov, PIPELINE_ASSUME, fails)


def check_C08(ctx):
    # the file format on its own: every mapping written and read back, every list of damaged lines loaded
    sf = run_family(ctx, "sumfile", "MC_SumFile", ["SumFile_genSave.cfg", "SumFile_genLoad.cfg"], "SumFileTrace", a_cfgs=["SumFile_A.cfg"], shard=4000)
    extra = vlib.collect_failures(sf["trace"], sf["bad"], "sumfile", only_prefix="C08")
    return pipeline_check(ctx, "C08",
        "Loop A: Pipeline.tla (one action per critical section of Execute/pkgExecute, lazy fault choice, nondeterministic write/remove order, environment "
        "actions between runs) checked exhaustively per layout. Loop B: PipelineHist.tla enumerates every history prefix.tail with prefix in {fresh, generated twice} and "
        "tail up to the tier bound over 17 steps {run All / Force / subset / non-All / failing, edit, add/delete user file, delete output, delete or corrupt gengo.sum "
        "(4 kinds)} in three layouts (siblings, nested, root package) x 2 behaviour configurations; each history is executed on a real module tree, every run in a fresh process. "
        "evaluations = runs executed; non-trivial = histories containing an environment action between two runs.",
        lambda r: r["case"]["k"] > 1,
        rand_n=150 if ctx.quick() else 3000, extra_fails=extra, extra_lines=len(sf["trace"]))


def check_C02(ctx):
    return pipeline_check(ctx, "C02",
        "Fault enumeration from the model: PipelineHist.tla places each single fault {generator error, unparseable rendering, process death} at each position "
        "{GenerateType call T1/T2, deferred callback} x package {p,q,r} x generator {a,b} on three run shapes (All over everything, non-All on two entrypoints with "
        "reordered generators, All+Force through a dependency) from five pre-states {fresh, generated once, converged, converged + stale files, converged without gengo.sum} in "
        "three layouts x 2 behaviour configurations, each followed by a plain All run; every run in a fresh process, death = os.Exit(7) inside the callback. "
        "evaluations = runs executed; non-trivial = histories whose fault was actually reached. Unbounded part: proofs/PipelineSumProof.tla proves with TLAPS over "
        "Pipeline.tla itself - any packages, generators, import graph, behaviours, arguments, number of runs - that gengo.sum changes only in the save step or between runs and "
        "equals its value at the start of the run whenever a run is in progress, has failed or has died, and that a run changes sources / user files never and outputs of "
        "the current package only.",
        lambda r: r["obs"]["failed"] or r["obs"]["died"],
        rand_n=100 if ctx.quick() else 2000, level="fault_enumeration")


def check_C06(ctx):
    reps = 2 if ctx.quick() else 8
    res = run_family(ctx, "dispatch", "Dispatch", ["Dispatch_gen.cfg"] * reps, "DispatchTrace", a_cfgs=["Dispatch_A.cfg"], shard=300)
    # unbounded: precedence of the decisive tag over arbitrary tag sets at the three levels (Dispatch.tla itself)
    proved = vlib.tlaps_prove(ctx, "proofs/DispatchProof.tla", with_modules=("Dispatch.tla", "proofs/stubs/Json.tla"))
    fails = vlib.collect_failures(res["trace"], res["bad"], "dispatch", only_prefix="C06")
    tr = res["trace"]
    cov = {
        "tlaps_obligations_discharged": proved,
        "traces_validated_against_impl": len(tr),
        "evaluations": sum(len(r["obs"]["calls"]) for r in tr),
        "distinct_nontrivial": _distinct(tr, lambda r: r["case"]["gp"] != "none" or r["case"]["pp"] != "none", key=lambda r: json.dumps([r["case"]["gp"], r["case"]["pp"], r["case"]["gens"]])),
        "rule": "Dispatch.tla enumerates the full placement lattice: global x package level in {absent, gengo:a, gengo:a=false, gengo:a=true, gengo:a:b, both false and sub} x 4 generator "
                "lists over the names a, ab, a:b (prefixes of one another); every module holds 24 package-level declarations = the 6 declaration-level placements x {defined, "
                "generic, alias to local, alias to foreign type}, plus function-local types (one shadowing a package-level name, one alias), type parameters named like "
                "package-level types, a second package comment file and a tagged foreign package; each is run %d times in fresh processes with recording generators whose "
                "deferred callbacks (one registering a nested callback) log when they run. evaluations = callbacks judged; non-trivial = distinct (global, package, generator list) "
                "with a tag above declaration level." % reps,
        "exhaustive": True,
        "modules_run": len(tr),
        "samples": [{"case": {k: r["case"][k] for k in ("gp", "pp", "gens")}, "calls": r["obs"]["calls"][:10]} for r in tr[:: max(1, len(tr) // 3)][:3]],
    }
    return vlib.finish(ctx, "model_checking", cov, [
        "at most one value per tag key at each level (multi-valued gengo:<name> tags at one level are not generated; statement silent)",
        "generator tags only in one of the package's two package comments (merge order across files is map/file order; statement silent)",
        "alias declarations are observed as *types.Alias (Go >= 1.23 default)",
    ], fails)


def check_C07(ctx):
    return pipeline_check(ctx, "C07",
        "PipelineHist.tla enumerates pre-existing file sets (user.go, zz_generatedx.go, zz_generated, stale zz_generated.old.go, notes.txt; planted before or after a first "
        "generation) x behaviour configurations covering render / nothing / ErrSkip / ErrIgnore / ErrIgnore+render / mixed x run shapes {All, non-All single package, All "
        "through a dependency, All+Force with fewer generators, non-All with reordered generators} x three layouts; every file under the module root is digested before and "
        "after each run. evaluations = runs executed; non-trivial = histories with at least one planted file or a non-rendering behaviour.",
        lambda r: len(r["case"]["beh"]) > 0 or r["case"]["k"] > 1,
        rand_n=100 if ctx.quick() else 2000)


def check_C04(ctx):
    return pipeline_check(ctx, "C04",
        "PipelineHist.tla enumerates histories in which the same module is generated repeatedly - the same run in 8 fresh processes (new map seeds each), every "
        "permutation of the entrypoints with and without All, runs through a dependency - for the plain fixture and for a fixture whose packages contain function-local "
        "types, local aliases and type parameters named like the package-level types; PipelineTrace.tla keeps, per history, a memo keyed by (package, digest of its input files, "
        "generators, behaviour) and requires byte-identical outputs and the specification's call order on every later run, and that a re-run changes no file. Loop A: "
        "C04_OutputIsFunctionOfInput holds for every write/remove order. evaluations = runs; non-trivial = histories with >= 2 runs of the same package.",
        lambda r: r["case"]["k"] > 1,
        rand_n=60 if ctx.quick() else 1500)


def check_C05(ctx):
    return pipeline_check(ctx, "C05",
        "PipelineHist.tla enumerates every pair of runs over {every non-empty selection of the three packages in every order} x {All+Force, non-All} on the same module, "
        "with stateful recording generators (output reveals how many types the instance had seen and whether the helper was already emitted), with and without a custom "
        "New; PipelineTrace.tla's memo requires each package's generated files to be byte-identical in every run that regenerates it, whatever else was selected. "
        "evaluations = runs; non-trivial = histories whose two runs select different package sets or orders.",
        lambda r: r["case"]["k"] > 1,
        rand_n=60 if ctx.quick() else 1500, only="C04")


def check_C09(ctx):
    t = ctx.tier
    gens = ["Template_gen%s_%s.cfg" % (k, t) for k in ("T", "T2", "S", "C", "D", "P")]
    res = run_family(ctx, "template", "Template", gens, "TemplateTrace", rand_n=4000 if ctx.quick() else 80000,
                     a_cfgs=["Template_A_%s.cfg" % t], shard=8000)
    fails = vlib.collect_failures(res["trace"], res["bad"], "template", only_prefix="C09")
    tr = res["trace"]

    def nontrivial(r):
        c = r["case"]
        if c["api"] == "T":
            f = c["fmt"]
            return any(f[i] == 64 and i + 1 < len(f) and (chr(f[i + 1]).isalnum() and f[i + 1] < 128 or f[i + 1] == 95) for i in range(len(f)))
        if c["api"] == "Sprintf":
            return 37 in c["fmt"]
        return len(c["fmt"]) + len(c["args"]) > 0
    per_api = {}
    for r in tr:
        per_api[r["case"]["api"]] = per_api.get(r["case"]["api"], 0) + 1
    cov = {
        "traces_validated_against_impl": len(tr),
        "evaluations": len(tr),
        "distinct_nontrivial": _distinct(tr, nontrivial, key=lambda r: json.dumps(r["case"], sort_keys=True)),
        "rule": "TLC enumerates every T format over a 12-symbol alphabet (letters, digit, _, @, ', %, newline, space, -, 2- and 3-byte runes) and every "
                "Sprintf format over {a,%,v,T,x,space,@} up to the tier bound (argument kinds chosen per verb, incl. missing), all Comment texts, GoDirective "
                "argument lists and Snippets/Fragments part lists in bound; each is rendered through gengo.NewSnippetWriter and compared by TemplateTrace.tla with the "
                "declarative reference. Names are bound by a fixed environment (literal, empty, nil, placeholder-looking, nested template, Snippets, unbound). "
                "Non-trivial = distinct cases that contain a placeholder (T), a percent sign (Sprintf) or a non-empty input (others).",
        "exhaustive": True,
        "per_api": per_api,
        "samples": [{"api": r["case"]["api"], "text": r["conc"]["text"], "args": r["case"]["args"], "obs": vlib.pretty(r["obs"])}
                    for r in tr[:: max(1, len(tr) // 5)][:5]],
        "abstract_cases": res["n_cases"],
    }
    return vlib.finish(ctx, "model_checking", cov, [
        "formats contain no NUL, no U+FEFF and no invalid UTF-8 (text/scanner alters those by design; outside C09's alphabet)",
        "a '%' that is the very last character of a Sprintf format is left open by the statement (no verb): either outcome is accepted",
        "surplus Sprintf arguments and %T of non-identifier values are not generated (statement silent)",
    ], fails)


def check_C10(ctx):
    res = run_family(ctx, "valuelit", "ValueLit", ["ValueLit_gen.cfg"], "ValueLitTrace", rand_n=400 if ctx.quick() else 6000, shard=6000, exec_timeout=5400)
    fails = vlib.collect_failures(res["trace"], res["bad"], "valuelit", only_prefix="C10")
    tr = res["trace"]
    cov = {
        "traces_validated_against_impl": len(tr),
        "evaluations": len(tr),
        "distinct_nontrivial": _distinct(tr, lambda r: r["case"]["shape"] != "leaf", key=lambda r: json.dumps(r["case"], sort_keys=True)),
        "rule": "ValueLit.tla enumerates (shape, leaf) for 32 container shapes (scalars, slices, arrays, maps with string / named / non-string keys, nested slices and maps, single-level "
                "pointers to scalars, named scalars, structs and zero-valued structs, generic struct instantiations, struct values with pointer / nested / map / slice fields, zero values, "
                "nil and empty containers, a type of another package) x every edge class of 16 leaf types (extreme integers, printable / non-printable / negative runes, float32 / float64 "
                "zero, -0, smallest subnormal, max, 0.1, 1/3, 1e300, strings with quotes, control characters, backquotes, non-UTF-8 bytes, long text, named versions). Each value is "
                "built with reflect, rendered with snippet.Value three times, type-checked on its own by go/types with exactly the registered imports (alone, and against the value's "
                "type), and all well-typed literals are compiled into one program that prints a canonical form compared with the original's. Plus seeded random nested values "
                "(depth 3 over slices, arrays, maps with seven key types, pointers, a struct with container fields). Non-trivial = composite shapes.",
        "exhaustive": True,
        "compiled_and_evaluated": sum(1 for r in tr if r["obs"]["ran"]),
        "samples": [{"case": r["case"], "text": r["obs"]["text"][:200], "type": r["obs"]["go_type"]} for r in tr[:: max(1, len(tr) // 4)][:4]],
    }
    return vlib.finish(ctx, "exploration", cov, [
        "go/types and the Go compiler decide compilation and typing; a compiled program decides evaluation (canonical form: nil = empty containers, pointers followed, floats bit-exact)",
        "lenient typing: an untyped constant that is representable in the value's type counts as having it",
        "single-level pointers, finite floats, exported fields only (the statement's domain)",
    ], fails)


def check_C11(ctx):
    t = ctx.tier
    res = run_family(ctx, "typelit", "TypeLit", ["TypeLit_gen_%s.cfg" % t, "TypeLit_gen_%s2.cfg" % t], "TypeLitTrace", shard=6000)
    fails = vlib.collect_failures(res["trace"], res["bad"], "typelit", only_prefix="C11")
    tr = res["trace"]
    cov = {
        "traces_validated_against_impl": len(tr),
        "evaluations": len(tr),
        "distinct_nontrivial": _distinct(tr, lambda r: r["case"]["tree"]["k"] != "leaf", key=lambda r: json.dumps(r["case"], sort_keys=True)),
        "rule": "TypeLit.tla enumerates every well-formed closed type expression up to the tier depth over 12 leaves (int, string, error, any, named struct / integer / string types of "
                "three packages - the target's own, another, and a second package with the same name - and instantiations of a generic struct with a basic, a same-package and a "
                "foreign argument) and 8 constructors (pointer, slice, array, bidirectional channel, map with string key, map with named key, struct with a tagged field, struct with an "
                "embedded field) x 3 rendering scenarios (into the own package, into another package, into a package that already imported the same-named package) x 2 views (go/types, "
                "reflect). Each is rendered with snippet.ID and `var X <text>` is type-checked by go/types inside the target package with exactly the registered imports; the result's type "
                "string is compared with the original's. Non-trivial = composite expressions.",
        "exhaustive": True,
        "samples": [{"case": r["case"], "rendered": r["obs"]["rendered"], "got": r["obs"]["got"], "imported": r["obs"]["imported"]} for r in tr[:: max(1, len(tr) // 4)][:4]],
    }
    return vlib.finish(ctx, "model_checking", cov, [
        "go/types is the oracle for 'type-checks to an identical type' (fully qualified type strings are compared, which cover names, tags, embedding and lengths)",
        "the reflect view covers the instantiations that exist in the compiled harness",
        "directional channels, function and non-empty interface types are outside the statement's grammar and not generated",
    ], fails)


def check_C12(ctx):
    t = ctx.tier
    gens = ["Comments_gen%s_%s.cfg" % (k, t) for k in ("Tag", "List", "Lay", "Lay2", "Lay3")]
    res = run_family(ctx, "comments", "Comments", gens, "CommentsTrace", rand_n=2000 if ctx.quick() else 20000,
                     a_cfgs=["Comments_A_%s.cfg" % t, "Comments_A2_%s.cfg" % t], shard=6000)
    fails = vlib.collect_failures(res["trace"], res["bad"], "comments", only_prefix="C12")
    tr = res["trace"]

    def nontrivial(r):
        c = r["case"]
        if c["part"] == "tags":
            return any(43 in ln or 64 in ln or 35 in ln for ln in c["lines"])
        lay = c["layout"]
        return any(k in "DTM" for k in lay) and any(k in "CGKTM" for k in lay)
    cov = {
        "traces_validated_against_impl": len(tr),
        "evaluations": len(tr),
        "distinct_nontrivial": _distinct(tr, nontrivial, key=lambda r: json.dumps(r["case"], sort_keys=True)),
        "rule": "TLC enumerates (1) every comment line over {space,+,@,=,k,v} up to the tier length and all 2-3 line lists over 8 interesting lines, run through "
                "ExtractCommentTags; (2) every layout of blank / comment / tag / block-comment / declaration / declaration-with-trailing-comment / two-name "
                "declaration lines up to the tier length in each of 5 contexts (ungrouped, type(), const(), var(), struct body); layouts are written as real Go source "
                "(400 per package), loaded with gengo's types.Load, and Doc/Comment are queried for every declared object found through go/types. Plus random longer "
                "lists (custom markers) and layouts. Non-trivial = distinct cases with a marker character (tags) or with both a declaration and a comment (layouts).",
        "exhaustive": True,
        "layouts": sum(1 for r in tr if r["case"]["part"] == "layout"),
        "declarations_queried": sum(len(r["obs"].get("decls", [])) for r in tr if r["case"]["part"] == "layout"),
        "samples": [{"case": vlib.pretty(r["case"]), "source": r["conc"].get("source"), "obs": vlib.pretty(r["obs"])}
                    for r in (tr[:: max(1, len(tr) // 4)][:3] + [x for x in tr if x["case"]["part"] == "layout"][-2:])],
        "abstract_cases": res["n_cases"],
    }
    return vlib.finish(ctx, "model_checking", cov, [
        "comment texts are canonical (one space after //, no trailing blanks, single-line block comments; every third // line reads 'go: ...' - words that look like a directive)",
        "only own-line comment groups and trailing comments of declarations are generated; comments trailing a '(' or '{' line are not (statement silent)",
        "other (non-tag) lines are compared after trimming spaces on both sides",
        "tabs are not part of the tag-line alphabet ('trimming spaces')",
    ], fails)


def check_C20(ctx):
    t = ctx.tier
    vlib.build_harness_race(ctx)
    vlib.tlc_check(ctx, "InflectorCache", "InflectorCache_A_%s.cfg" % t, workers=8)
    vlib.tlc_expect_violation(ctx, "InflectorCache", "InflectorCache_A_seeddemo.cfg", "C20_ReturnsF")
    proved = vlib.tlaps_prove(ctx, "proofs/InflectorCacheProof.tla", with_modules=("InflectorCache.tla",)) if not ctx.quick() else 0
    res = run_family(ctx, "inflect", "Inflector", ["Inflector_gen.cfg"], "InflectorTrace",
                     rand_n=3000 if ctx.quick() else 45000, shard=4000)
    fails = vlib.collect_failures(res["trace"], res["bad"], "inflect", only_prefix="C20")
    tr = res["trace"]
    conc = [r for r in tr if r["case"]["kind"] == "conc"]
    drift = sum(1 for r in tr if r["case"]["kind"] != "conc" and not r["obs"]["table_ok"])
    cov = {
        "traces_validated_against_impl": len(tr),
        "evaluations": len(tr),
        "distinct_nontrivial": _distinct(tr, lambda r: r["case"]["kind"] == "conc" or r["conc"]["law"] or r["case"]["kind"] == "random",
                                         key=lambda r: json.dumps([r["case"], r["conc"].get("text")], sort_keys=True)),
        "rule": "InflectorCache.tla: every interleaving of the LoadOrStore/OnceValue protocol for the tier's goroutines x keys x calls (TLC, with "
                "fairness for 'every caller returns'); thorough tier: proofs/InflectorCacheProof.tla proves with TLAPS over InflectorCache.tla itself, for any number of goroutines, keys and calls, that every returned "
                "value is the function's value and no waiter is left behind. Inflector.tla: every irregular word of both rule tables x {lower,UPPER,Title} x 5 prefixes x 6 "
                "boundaries, uninflected samples, as initial states; each replayed into Pluralize/Singularize (twice, plus the word alone); seeded random "
                "strings incl. case-folding specials; concurrent rounds (4-8 goroutines, overlapping keys, cold cache, race detector on) recorded as "
                "call/ret events. Non-trivial = distinct cases where the prefix law applies, random strings, and concurrent rounds.",
        "exhaustive": True,
        "tlaps_obligations_discharged": proved,
        "concurrent_rounds": len(conc),
        "concurrent_events": sum(len(r["obs"]["events"]) for r in conc),
        "drift_vs_irregular_table": drift,
        "samples": [{"case": r["case"], "text": r["conc"].get("text"), "out": vlib.text_of(r["obs"].get("out", []))}
                    for r in tr[:: max(1, len(tr) // 4)][:4]] + [{"case": r["case"], "events": r["obs"]["events"][:12]} for r in conc[:1]],
        "abstract_cases": res["n_cases"],
    }
    return vlib.finish(ctx, "model_checking", cov, [
        "the prefix law is judged only where the statement applies: an irregular word of the rule tables directly preceded by a non-word boundary",
        "goroutine interleavings of the real code are sampled (scheduler not controllable); all interleavings are covered on the protocol model only",
        "Go race detector and sync.Map/sync.OnceValue semantics are trusted",
    ], fails)


CHECKS = {
    "C01": check_C01,
    "C02": check_C02,
    "C03": check_C03,
    "C04": check_C04,
    "C05": check_C05,
    "C06": check_C06,
    "C07": check_C07,
    "C08": check_C08,
    "C09": check_C09,
    "C10": check_C10,
    "C11": check_C11,
    "C12": check_C12,
    "C13": check_C13,
    "C14": check_C14,
    "C15": check_C15,
    "C16": check_C16,
    "C17": check_C17,
    "C18": check_C18,
    "C19": check_C19,
    "C20": check_C20,
}
