HOOKS = {
    "guard": "verif",
    "enable": "go build -tags verif (bin/check always builds the harness and /repo with the tag; no guarded source is needed so far, see DESIGN.md section 8)",
    "baseline_off_cmd": "cd /repo && GOFLAGS=-mod=mod GOPROXY=off go test -vet=off -count=1 ./...",
    "source_commits": [],
    "add_only": True,
}

NOTES = ("All checks: bin/check <ID> --tier quick|thorough; VERIF_SEED seeds concretisation, random cases and TLC simulation. "
         "Exit 2 = infrastructure error (never a violation). Known findings: KNOWN_FINDINGS.txt.")

_TLC = "explicit TLA+ spec + TLC: exhaustive design check, TLC-generated cases replayed into the Go code, recorded traces judged by a TLC trace module"

CHECKS = {
    "C01": {
        "level": "model_checking",
        "text": "GenFile.tla abstracts a generated file to (generator, package, import set, declaration names in order) and enumerates every sequence of Render fragments in bound "
                "(9 declaration kinds x 7 whitespace noises x 4 reference modes x module variants); the specification computes the names and import set that must come out. Each case "
                "becomes a package of a real module, generated through gengo's pipeline by a scripted generator; GenFileTrace.tla judges what was read back from disk: parses, header names "
                "the generator, package clause, names in order, same specs/tokens/comments as the rendered text, gofmt and gofumpt fixed points (formatters as logged oracles), import "
                "block and go build. The reference text for 'altered only by formatting' is assembled by the harness from the script (never by gengo's writer); further dimensions added after seeded changes: a module inside a go.work workspace whose other module is generated first, declarations assembled from several Render calls, a comment go/printer needs two passes for, every judged generation rewriting a longer earlier file. Also: any number of func init in one file.",
        "note": "The formatters and the compiler are oracles named by the statement itself and are not modelled; the spec supplies the input space and the abstract file. Bounded fragment sequences + random longer ones.",
        "technique": _TLC,
    },
    "C02": {
        "level": "fault_enumeration",
        "text": "Pipeline.tla models Execute/pkgExecute with one action per critical section and a fault (generator error, unparseable rendering, process death) chosen lazily at every callback; TLC checks for all behaviours in bound that failure or death leaves gengo.sum and the culprit's previous file untouched (C02_* invariants, FineRefinesMacro). PipelineHist.tla then enumerates every single fault position x package x generator x run shape x pre-state x layout; each history runs on a real module (death = os.Exit inside the callback, fresh process per run) and PipelineTrace.tla judges outcome, error text, gengo.sum bytes, culprit file, sibling effects and the follow-up run. Unbounded part: specs/proofs/PipelineSumProof.tla (TLAPS, 206 obligations) proves over Pipeline.tla itself, for any packages / generators / runs, that gengo.sum changes only at the save step or between runs and is unchanged whenever a run is in progress, failed or died. Faults are also placed in GenerateAliasType (an alias type in every package of the fixture).",
        "note": 'Fixture module with three packages in three layouts; bounds of Loop A per cfg (2-3 packages, 2 generators, 3-5 runs, 1-2 environment actions). Real map/sync.Map orders are sampled (fresh process per run), all orders only in the model. Crash points inside WriteToFile/Save not enumerated.',
        "technique": _TLC,
    },
    "C04": {
        "level": "model_checking",
        "text": "Pipeline.tla models every order nondeterminism (write order of kept genfiles, stale-file removal order) and TLC checks C04_OutputIsFunctionOfInput for all of them; PipelineHist.tla enumerates repeated runs in fresh processes, all entrypoint permutations with/without All, on a plain fixture and one with shadowing local types / type parameters; PipelineTrace.tla's memo requires byte-identical outputs and the specified call order for identical package inputs and that a re-run changes nothing. The stateful generator renders one template whose two arguments refer to two packages with the same preferred import name; edits keep size and modification time and the process of the run first loads the module as it was before them.",
        "note": 'Fixture module with three packages in three layouts; bounds of Loop A per cfg (2-3 packages, 2 generators, 3-5 runs, 1-2 environment actions). Real map/sync.Map orders are sampled (fresh process per run), all orders only in the model. Crash points inside WriteToFile/Save not enumerated.',
        "technique": _TLC,
    },
    "C05": {
        "level": "model_checking",
        "text": "ExpectedOut in Pipeline.tla mentions only the package's own behaviour and previous outputs (checked by TLC for every interleaving with other packages); PipelineHist.tla enumerates all pairs of runs over every ordered non-empty selection of packages x {All, non-All} with stateful recording generators (with and without New); PipelineTrace.tla requires each package's files to be identical in every run that regenerates it. The stateful generator renders one template whose two arguments refer to two packages with the same preferred import name.",
        "note": 'Fixture module with three packages in three layouts; bounds of Loop A per cfg (2-3 packages, 2 generators, 3-5 runs, 1-2 environment actions). Real map/sync.Map orders are sampled (fresh process per run), all orders only in the model. Crash points inside WriteToFile/Save not enumerated.',
        "technique": _TLC,
    },
    "C07": {
        "level": "model_checking",
        "text": "Action properties of Pipeline.tla (inputs never change, only the current package's outputs change, gengo.sum only at the save step of an All run, non-selected packages untouched, file exists iff rendered / ErrIgnore keeps) checked by TLC; PipelineHist.tla enumerates planted file sets x behaviour configurations x run shapes x layouts; every file under the module root is digested before/after each run and PipelineTrace.tla checks the changed set and the existence predicate. Pipeline.tla's inputs-untouched and current-package-only properties are also proved by TLAPS for unbounded constants (PipelineSumProof.tla, thorough tier); a wrong-alternative configuration (file decided before the deferred callbacks ran) must yield a TLC counterexample. Also: ErrIgnore signalled for an alias type (GenerateAliasType), a DIRECTORY named <base>.assets, an unhashable package generated alone from its own directory.",
        "note": 'Fixture module with three packages in three layouts; bounds of Loop A per cfg (2-3 packages, 2 generators, 3-5 runs, 1-2 environment actions). Real map/sync.Map orders are sampled (fresh process per run), all orders only in the model. Crash points inside WriteToFile/Save not enumerated.',
        "technique": _TLC,
    },
    "C08": {
        "level": "model_checking",
        "text": 'Pipeline.tla gives directories structural hashes (covering nested package directories) and models load-time hashing, the cached-skip guard, save after success and environment edits; TLC checks skip-only-if-unchanged, sum-after-success and bounded convergence (2 + nesting depth quiet runs, then nothing happens) and reproduces non-convergence when the root hash covers gengo.sum. PipelineHist.tla enumerates histories over 17 steps (edits, user files, deleted outputs, deleted/corrupted gengo.sum, Force, failing and subset runs) from fresh and converged pre-states in three layouts; PipelineTrace.tla binds the logged dirhash values and judges every run. C08_SumAfterSuccess is also proved by TLAPS for unbounded constants (PipelineSumProof.tla, thorough tier); two wrong-alternative configurations (root hash covers gengo.sum; save only when the mapping changed) must yield TLC counterexamples. Also: a file named gengo.sum in a package that is not the module root; edits that keep size and modification time, with a preliminary load of the earlier content in the process of the run (process-wide caches).',
        "note": 'Fixture module with three packages in three layouts; bounds of Loop A per cfg (2-3 packages, 2 generators, 3-5 runs, 1-2 environment actions). Real map/sync.Map orders are sampled (fresh process per run), all orders only in the model. Crash points inside WriteToFile/Save not enumerated.',
        "technique": _TLC,
    },
    "C06": {
        "level": "model_checking",
        "text": "Dispatch.tla defines effective tags (declaration over package over global, per key), the enabling rule over segment-structured keys (decisive gengo:<name>, else any "
                "gengo:<name>:<sub>) and the expected callback sequence; TLC checks precedence and no-prefix-confusion over the whole lattice; every (global, package) placement x generator "
                "list is materialised with all 24 declaration-level placement x kind combinations plus local types, type parameters and a tagged foreign package, run in fresh processes, and "
                "DispatchTrace.tla compares the callback log (kind, generator, type, go/types object kind) and the deferred-callback discipline (once each, after the last call, before the write). A second package without package tags is generated after the first in the same Execute (nothing may leak), one generator renders only from deferred callbacks, one callback registers two follow-ups, and multi-line declarations carry trailing tag comments that must not reach the next type. Half of the declarations lie below a //line directive.",
        "note": "Exhaustive over the 6x6x6 placement lattice for one tag family and 4 generator lists; one value per key per level; tags in one package comment only.",
        "technique": _TLC,
    },
    "C03": {
        "level": "model_checking",
        "text": "ImportTracker.tla states the permissive contract of the import table (exactly the referenced foreign packages; valid non-keyword identifiers; injective; "
                "stable; ask-twice; printed qualifier = bound name; own package unqualified) and a code-shaped candidate search that TLC proves total for every addition "
                "order (and shows partial without the fall-back). TLC enumerates every reference history over a collision-prone 14-path universe closed by each reference "
                "kind; each is rendered through a real raw namer + tracker with the whole table logged after every step and ImportTrackerTrace.tla judges every step. Also: a natural name that equals a numbered fall-back name; type arguments spelled with letters outside ASCII.",
        "note": "Chosen names are bound from the log, not prescribed. The written-file side (import block of real generated files = referenced packages, distinct valid bound names, go build) is judged by the genfile family shared with C01.",
        "technique": _TLC,
    },
    "C09": {
        "level": "model_checking",
        "text": "Template.tla holds a declarative reference for T/Sprintf/Comment/GoDirective/Snippets written from the statement and a scanner-shaped machine "
                "for T that TLC proves equal to it for all formats in bound (Loop A); every reachable state of the per-API generation machines (all formats over the "
                "alphabet up to the bound, argument kinds chosen per verb, fixed binding environment with nil/empty/placeholder-looking/nested arguments) is rendered "
                "through gengo.NewSnippetWriter and TemplateTrace.tla compares output / panic with the reference (Loop C); seeded random long Unicode formats beyond. Every snippet value is rendered a second time into another package's file and compared with a freshly built one; Args maps are reused by the caller after T returned; every second Snippets case wraps a one-shot sequence.",
        "note": "Small-scope exhaustive (length bound, fixed alphabet and environment). Inputs with NUL/BOM/invalid UTF-8 excluded (text/scanner alters them); trailing lone '%' accepted either way.",
        "technique": _TLC,
    },
    "C10": {
        "level": "exploration",
        "text": "ValueLit.tla enumerates the value domain as (container shape, leaf edge class) - 32 shapes x the edge classes of 16 leaf types (904 values) - and states the round-trip law; "
                "each value is built with reflect, rendered with snippet.Value (three times, for determinism), type-checked on its own by go/types with exactly the registered imports, and all "
                "well-typed literals are compiled into one program whose canonical output is compared with the original's; ValueLitTrace.tla judges the logged verdicts. TLA+ supplies the domain "
                "and the law only: encode/decode fidelity itself is decided by the compiler in the conformance step, hence exploration level.",
        "note": "Lenient typing (untyped representable constants accepted); deep equality identifies -0 and +0, nil and empty containers; single-level pointers, finite floats, exported fields.",
        "technique": "TLA+-enumerated domain + law, TLC trace judge over go/types / compiler / compiled-program verdicts",
    },
    "C11": {
        "level": "model_checking",
        "text": "TypeLit.tla enumerates every well-formed closed type expression up to the tier depth (12 leaves incl. error, any, named types of three packages - one same-named clash - "
                "and generic instantiations; 8 constructors incl. tagged and embedded struct fields) x 3 rendering scenarios x {go/types, reflect} views and states the law (rendered text "
                "type-checks in the target package with exactly the registered imports to an identical type; local unqualified; imports = mentioned foreign packages). Each case is rendered "
                "with snippet.ID, type-checked by go/types inside the real target package and judged by TypeLitTrace.tla. A fourth rendering scenario writes into the package whose directory is dotted.v3; the tag of the tagged field contains percent signs.",
        "note": "go/types decides denotation (logged); the specification supplies domain and law. Exhaustive to the depth bound.",
        "technique": _TLC,
    },
    "C12": {
        "level": "model_checking",
        "text": "Comments.tla defines tag classification (trim, marker, key/value split, ordered multimap) and the geometric attribution of doc and trailing "
                "comments over layouts of line kinds in five declaration contexts; TLC proves that a two-index scheme (leading groups by end line, trailing groups "
                "apart) equals the geometric definition for all layouts in bound and shows the counterexample when trailing groups leak into the leading index; every "
                "line / line list / layout in bound is replayed (real Go source loaded by types.Load) and CommentsTrace.tla judges tags, other lines, Doc, Comment per declaration. Layouts include declarations spanning several lines and embedded fields with trailing comments; every Doc/Comment is asked again after the caller overwrote what the first call returned; two thirds of the layouts lie below a //line directive. Every third // line reads go: ... or host:port ... (text shaped like a directive); tag lines include words whose first character ends in the byte of a marker.",
        "note": "Canonical comment texts; comments trailing '(' or '{' lines and tab-indented tag lines are not generated (statement silent). Exhaustive up to the line-count / length bound.",
        "technique": _TLC,
    },
    "C13": {
        "level": "model_checking",
        "text": "Universe.tla models (1) filling name-keyed tables from an arbitrarily ordered Defs map - TLC proves the result equals the package-scope view for every order "
                "with the scope filter and exhibits the order-dependent counterexample without - and (2) DFS registration over an import DAG for every visiting order and root set "
                "(imports resolve iff the package object is created after its imports). Every selection of up to 3-4 of 22 source features is a synthetic package, the dependency "
                "closure of gengo's own module (std included) is the real corpus; UniverseTrace.tla compares table key sets, identity, MethodsOf, Imports, LocateInPackage, SourceDir "
                "with go/types scopes and file positions logged by the harness. UniverseTablesProof.tla (TLAPS, 54 obligations, over Universe.tla itself) proves the table machine correct for any object set and visiting order; the configuration without the scope filter must yield a TLC counterexample. Methods declared through an alias of the receiver type; LocateInPackage is asked for the first byte, every comment and the last byte of each file.",
        "note": "go/types and go/packages are the oracle. Interface types are excluded from the MethodsOf comparison; init/blank functions set aside.",
        "technique": _TLC,
    },
    "C14": {
        "level": "model_checking",
        "text": "FuncResults.tla models the analysis as a depth-first search over (function, result index) pairs with visited marks; TLC proves termination for every call graph of the "
                "model (self / mutual recursion, cross-index forwarding) and shows the unbounded descent when only the first index gets its mark. Every assignment of 13 source shapes to "
                "three functions is a generated package (2197), and every function and method of the dependency closure of gengo's own module (about 11,000 units) is the real corpus; "
                "ResultsOf runs in a supervised child (stack cap, time budget, restart behind a killing unit) and FuncResultsTrace.tla judges termination, declared n, one non-empty list per "
                "result, assignability (go/types), repeatability and - for literal-only shapes - the exact alternatives in source order. Every unit is asked once more after all others (the answer may not depend on what was asked in between); shapes include a call chain over two package boundaries, closures with fewer results than the enclosing function, spread variadic calls, function-local constants and legacy octal literals; constants are checked for a kind the result type can hold. A third pass asks a FRESH universe of the same module in the opposite order; literal-only shapes include inexact integer division.",
        "note": "types.AssignableTo is the oracle for 'possible result'; ResultsOf is called on the declaring package; exact alternatives only for the literal-only shapes.",
        "technique": _TLC,
    },
    "C15": {
        "level": "model_checking",
        "text": "TypeRef.tla defines reference trees, their printer, a character-level parser with a bracket depth counter, the path/name split point and the "
                "import-name rewrite; TLC checks Parse(Print(t)) = t, Print(Parse(s)) = s and the split point for every tree within bounds (Loop A), every tree is "
                "replayed into ParseTypeRef/String, ParseRef/Ref, PkgImportPathAndExpose and snippet.ID through a raw namer (Loop B) and TypeRefTrace.tla "
                "judges parse result, printed string, split agreement, rewritten text and registered import set (Loop C). Every second reference is rendered into a file that has already named the generic declaration (a go/types object) of the same path and name.",
        "note": "Exhaustive for all trees within (depth,width,leaf set) bounds incl. depth 4-5 over one leaf; random trees beyond. Which import name is chosen is bound from the log, not prescribed.",
        "technique": _TLC,
    },
    "C16": {
        "level": "exploration",
        "text": "RuntimeDoc.tla enumerates type cases (8 kinds x doc comments over 11 line classes x 9 field patterns x 7 field doc patterns) and defines coverage, listed fields and the "
                "answers RuntimeDoc must give, computed from the recorded source lines; each case is real Go source, the real runtimedoc generator runs through gengo, the module is compiled "
                "with a probe program and RuntimeDocTrace.tla compares every recorded answer (type doc, every field, embedded delegation, unknown and unlisted names) with the specification's. Also: line classes that look like directives (host:port, go: ...), types below a //line directive, structs embedding a named scalar in packages where no struct embeds a struct.",
        "note": "Compiler + compiled probe are the oracle for 'compiles' and 'returns'; canonical comment text; embed references, docs starting with a field's own name and documented embedded fields are not generated.",
        "technique": "TLA+-enumerated domain with a model-computed oracle, TLC trace judge over the compiled program's answers",
    },
    "C17": {
        "level": "exploration",
        "text": "DeepCopy.tla holds a heap model (struct trees with container identities) in which TLC checks that a copy allocating fresh containers at every by-value nesting depth makes "
                "every mutation of the copy invisible to the original (and exhibits the sharing otherwise), and enumerates selections of 15 field kinds x 4 variants as generated struct types. "
                "The real deepcopy generator runs through gengo twice per package; the module is compiled and a reflective probe reports nil->nil, DeepEqual, the alias relation of every "
                "container path and the effect of mutating every container of the copy; DeepCopyTrace.tla judges the logged facts. Also: two fields of one container-holding struct type, package-level identifiers named slices / maps, enabled types whose names differ in case only.",
        "note": "Compiler and compiled probe are the oracle; the model supplies domain, alias law and the design-level proof. Containers are followed through by-value struct nesting only.",
        "technique": "TLA+ heap model checked by TLC + TLA+-enumerated type graphs, TLC trace judge over compiler / probe verdicts",
    },
    "C18": {
        "level": "exploration",
        "text": "PartialStruct.tla enumerates origin structs (ordered selections of 9 field kinds x tag-class rotations x omit sets x replace modes + three error shapes) and defines "
                "Retained(origin, omit, replace); the real partialstruct generator runs through gengo, the module is compiled, and a reflective probe reports field order, reflect.Type and tag "
                "identity with the origin or the replacement, DeepCopyAs on nil, equality of retained and zero-ness of omitted fields; PartialStructTrace.tla judges them against Retained and "
                "requires an error (and no file) for the error shapes. Also: partial declarations below a //line directive, origins reached through an alias that re-exports the struct of an internal package.",
        "note": "Compiler and compiled probe are the oracle; replacement types are generated partial structs.",
        "technique": "TLA+-enumerated domain with a model-computed oracle, TLC trace judge over compiler / probe verdicts",
    },
    "C19": {
        "level": "model_checking",
        "text": "CamelCase.tla models Split as a rune-class scanner with an explicit PANIC outcome; TLC proves it total, lossless and free of empty "
                "words for every class string up to the bound (Loop A), every reachable state is replayed three times (1/2/3-4 byte runes) "
                "into camelcase.Split and the six converters, and CamelCaseTrace.tla judges every recorded result against the property "
                "(no panic, non-empty words, concatenation = input, single word for invalid UTF-8, purity). Small-scope exhaustive + random beyond. Every input is converted once more in a fresh process that meets the inputs in the opposite order (history-dependent answers).",
        "note": "Trusts package unicode for rune classes, TLC, and the Go harness's recording. Exhaustive only up to the stated class-string length.",
        "technique": _TLC,
    },
    "C20": {
        "level": "model_checking",
        "text": "InflectorCache.tla models the sync.Map/OnceValue memo protocol (one action per critical section) and TLC checks for every interleaving of the tier's "
                "goroutines x keys x calls that each caller gets the function's value, the value is computed at most once per key and every caller returns (fairness). "
                "Inflector.tla enumerates every irregular word x case style x prefix x boundary; each is replayed into Pluralize/Singularize and InflectorTrace.tla judges "
                "totality, purity and the prefix law (out = prefix.boundary.alone_out). Concurrent rounds on a cold cache under the race detector are recorded as call/ret "
                "events and judged against the memo contract and a cold sequential reference.",
        "note": "Real goroutine schedules are sampled, not enumerated (only the protocol model covers all interleavings). Trusts the race detector, sync primitives, TLC.",
        "technique": _TLC,
    },
}

_PENDING = "check not built yet in this round - planned with the same TLA+ machinery (DESIGN.md section 6); not claimed until it runs green"
NOT_APPLICABLE = {pid: _PENDING for pid in ["C%02d" % i for i in range(1, 21)]}
