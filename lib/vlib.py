"""Shared machinery of the /verif checks (see DESIGN.md sections 2, 4, 5, 11).

Loop A  tlc_check()     exhaustive TLC run of a design configuration
Loop B  tlc_generate()  TLC state graph -> cases (one JSON object per reachable state)
        gvh()           Go harness: concretise + execute cases on the real code -> trace
Loop C  tlc_judge()     TLC trace module folds over the recorded trace -> per-line verdicts

Exit codes: 0 held / only known findings, 1 violation, 2 infrastructure error.
"""
import hashlib
import json
import os
import re
import shutil
import subprocess
import sys
import tempfile
import time
from concurrent.futures import ThreadPoolExecutor

ROOT = os.path.dirname(os.path.dirname(os.path.abspath(__file__)))
REPO = os.environ.get("VERIF_REPO", "/repo")
SPECS = os.path.join(ROOT, "specs")
HARNESS = os.path.join(ROOT, "harness")
EVIDENCE = os.path.join(ROOT, "evidence")
REPLAYS = os.path.join(ROOT, "replays")
FINDINGS = os.path.join(ROOT, "KNOWN_FINDINGS.txt")
NCPU = os.cpu_count() or 4


class Infra(Exception):
    """Infrastructure problem: never a violation (exit 2)."""


def log(*a):
    print(*a, flush=True)


# --------------------------------------------------------------------------- environment

_env_cache = None


def go_env():
    """The exact toolchain /repo's own test-suite runs under (DESIGN.md section 4)."""
    global _env_cache
    if _env_cache is not None:
        return _env_cache
    env = dict(os.environ)
    env.pop("GOSUMDB", None)
    env["GOFLAGS"] = "-mod=mod"
    env["GOPROXY"] = "off"
    env["GOTOOLCHAIN"] = "auto"
    env.pop("GOROOT", None)
    try:
        goroot = subprocess.run(["go", "env", "GOROOT"], cwd=REPO, env=env, capture_output=True,
                                text=True, timeout=120).stdout.strip()
    except Exception as e:  # pragma: no cover
        raise Infra("cannot resolve toolchain: %s" % e)
    if not goroot or not os.path.isdir(goroot):
        raise Infra("cannot resolve GOROOT for %s" % REPO)
    env["PATH"] = os.path.join(goroot, "bin") + os.pathsep + env.get("PATH", "")
    env["GOTOOLCHAIN"] = "local"
    env["GOROOT124"] = goroot
    env["VERIF_REPO"] = REPO
    _env_cache = env
    return env


class Ctx:
    """One check run: scratch directory (outside /repo and /verif), timers, counters."""

    def __init__(self, prop, tier, seed):
        self.prop, self.tier, self.seed = prop, tier, seed
        self.t0 = time.time()
        self.work = tempfile.mkdtemp(prefix="verif-%s-" % prop)
        self.gvh_bin = None
        self.states = 0
        self.transitions = 0
        self.tlc_runs = []
        self.notes = []

    def sub(self, name):
        d = os.path.join(self.work, name)
        os.makedirs(d, exist_ok=True)
        return d

    def cleanup(self):
        if os.environ.get("VERIF_KEEP"):
            log("[keep] scratch left at", self.work)
            return
        shutil.rmtree(self.work, ignore_errors=True)

    def quick(self):
        return self.tier == "quick"


# --------------------------------------------------------------------------- harness build

def _modfile_args(ctx):
    """The registered checks build the harness against /repo (the replace directive of harness/go.mod). For the regression over
    the seeded changes (bin/mutants -j) VERIF_REPO names a scratch copy of the repository instead: the harness is then built
    with an alternative go.mod whose replace directive points there."""
    if REPO == "/repo":
        return []
    alt = os.path.join(ctx.work, "alt.mod")
    if not os.path.exists(alt):
        with open(os.path.join(HARNESS, "go.mod")) as f:
            mod = f.read()
        with open(alt, "w") as f:
            f.write(mod.replace("=> /repo", "=> " + REPO))
        shutil.copy(os.path.join(HARNESS, "go.sum"), os.path.join(ctx.work, "alt.sum"))
    return ["-modfile=" + alt]


def build_harness(ctx):
    if ctx.gvh_bin:
        return ctx.gvh_bin
    out = os.path.join(ctx.work, "gvh")
    t = time.time()
    cmd = ["go", "build"] + _modfile_args(ctx) + ["-tags", "verif", "-o", out, "./cmd/gvh"]
    p = subprocess.run(cmd, cwd=HARNESS, env=go_env(), capture_output=True, text=True, timeout=900)
    if p.returncode != 0:
        raise Infra("harness does not build against %s:\n%s" % (REPO, (p.stdout + p.stderr)[-4000:]))
    ctx.gvh_bin = out
    log("[build] gvh built from %s working tree in %.1fs" % (REPO, time.time() - t))
    return out


def build_harness_race(ctx):
    """The same harness built with the race detector (concurrent rounds of C20)."""
    if getattr(ctx, "gvh_race", None):
        return ctx.gvh_race
    out = os.path.join(ctx.work, "gvh-race")
    t = time.time()
    env = dict(go_env())
    env["CGO_ENABLED"] = "1"
    p = subprocess.run(["go", "build"] + _modfile_args(ctx) + ["-race", "-tags", "verif", "-o", out, "./cmd/gvh"], cwd=HARNESS, env=env,
                       capture_output=True, text=True, timeout=1200)
    if p.returncode != 0:
        raise Infra("race build of the harness failed:\n%s" % (p.stdout + p.stderr)[-3000:])
    ctx.gvh_race = out
    log("[build] gvh-race built in %.1fs" % (time.time() - t))
    return out


def gvh(ctx, args, timeout=3600, check=True, stdin=None):
    exe = build_harness(ctx)
    env = dict(go_env())
    if getattr(ctx, "gvh_race", None):
        env["GVH_RACE"] = ctx.gvh_race
    env["VERIF_SEED"] = str(ctx.seed)
    env["VERIF_SCRATCH"] = ctx.sub("gvh-scratch")
    env["GVH_SELF"] = exe
    env["VERIF_HARNESS"] = HARNESS
    try:
        p = subprocess.run([exe] + args, env=env, capture_output=True, text=True, timeout=timeout, input=stdin)
    except subprocess.TimeoutExpired:
        raise Infra("gvh %s timed out after %ss" % (" ".join(args[:3]), timeout))
    if check and p.returncode != 0:
        raise Infra("gvh %s failed (%d):\n%s" % (" ".join(args), p.returncode, (p.stdout + p.stderr)[-4000:]))
    return p


# --------------------------------------------------------------------------- TLC

_TLC_STAT = re.compile(r"(\d+) states generated, (\d+) distinct states found, (\d+) states left on queue")


def _specdir(ctx):
    d = os.path.join(ctx.work, "specs")
    if not os.path.isdir(d):
        shutil.copytree(SPECS, d)
    return d


def _tlc(ctx, module, cfg, workers, env_extra=None, extra=None, timeout=1800, heap=None):
    sd = _specdir(ctx)
    md = tempfile.mkdtemp(prefix="md-", dir=ctx.work)
    env = dict(os.environ)
    if env_extra:
        env.update(env_extra)
    jopts = env.get("JAVA_TOOL_OPTIONS", "")
    jopts += " -Xss64m -Djava.io.tmpdir=%s" % ctx.work      # TLC's own temporary directories go with the check's scratch
    if heap:
        jopts += " -Xmx%s" % heap
    env["JAVA_TOOL_OPTIONS"] = jopts.strip()
    cmd = ["timeout", str(timeout), "tlc", "-workers", str(workers), "-metadir", md, "-config", cfg]
    if extra:
        cmd += extra
    cmd += [module]
    t = time.time()
    p = subprocess.run(cmd, cwd=sd, env=env, capture_output=True, text=True)
    shutil.rmtree(md, ignore_errors=True)
    out = p.stdout + "\n" + p.stderr
    wall = time.time() - t
    if p.returncode == 124:
        raise Infra("TLC timed out after %ss on %s/%s" % (timeout, module, cfg))
    return p.returncode, out, wall


def _stats(out):
    m = None
    for m in _TLC_STAT.finditer(out):
        pass
    if not m:
        return 0, 0
    return int(m.group(2)), int(m.group(1))


def tlc_check(ctx, module, cfg, workers=None, timeout=1800, must_cover=(), coverage=False, env_extra=None):
    """Loop A: exhaustive check of a design configuration. Any TLC error here is a broken
    specification (my bug) -> infrastructure error, never a violation of the code."""
    extra = ["-coverage", "1"] if coverage else []
    rc, out, wall = _tlc(ctx, module, cfg, workers or NCPU, extra=extra, timeout=timeout, env_extra=env_extra)
    distinct, generated = _stats(out)
    if rc != 0 or "Model checking completed. No error has been found." not in out:
        tail = "\n".join(out.splitlines()[-60:])
        raise Infra("Loop A: TLC reports an error in the specification %s (%s), rc=%d:\n%s" % (module, cfg, rc, tail))
    if coverage and must_cover:
        for name in must_cover:
            # coverage lines look like: <Name line 10, col 1 to line 12, col 20 of module M>: 12:345
            m = re.search(r"<%s line[^>]*>: (\d+):(\d+)" % re.escape(name), out)
            if not m or int(m.group(2)) == 0:
                raise Infra("Loop A vacuity guard: action %s never taken in %s/%s" % (name, module, cfg))
    ctx.states += distinct
    ctx.transitions += generated
    ctx.tlc_runs.append({"loop": "A", "module": module, "cfg": cfg, "distinct": distinct, "generated": generated,
                         "wall_s": round(wall, 1)})
    log("[loopA] %s/%s: %d distinct states, %d generated, no error, %.1fs" % (module, cfg, distinct, generated, wall))
    return distinct, generated


def tlc_expect_violation(ctx, module, cfg, invariant, workers=4, timeout=900):
    """Design-level negative control: the configuration switches ONE modelled design decision to the wrong alternative
    (save gengo.sum only when the mapping changed, decide a generator's file before its deferred callbacks ran, let the root
    package's hash cover gengo.sum, drop the numbered fall-back name, drop the package-scope filter) and TLC must answer with a
    counterexample to the named invariant. If it does not, the specification cannot tell the two designs apart - that is a
    vacuous specification (infrastructure error), never a violation of the code."""
    rc, out, wall = _tlc(ctx, module, cfg, workers, timeout=timeout)
    if ("Invariant %s is violated" % invariant) not in out and ("Action property %s is violated" % invariant) not in out:
        raise Infra("design demo %s/%s: TLC did not report a counterexample to %s:\n%s" % (module, cfg, invariant, "\n".join(out.splitlines()[-25:])))
    distinct, generated = _stats(out)
    ctx.tlc_runs.append({"loop": "A-negative-control", "module": module, "cfg": cfg, "expected_counterexample_to": invariant, "found": True,
                         "distinct": distinct, "generated": generated, "wall_s": round(wall, 1)})
    log("[loopA] %s/%s: counterexample to %s found as expected (wrong design alternative), %.1fs" % (module, cfg, invariant, wall))


def tlaps_prove(ctx, relpath, timeout=900, with_modules=()):
    """Machine-checks a TLAPS proof module (unbounded design-level lemma). A failing proof is a broken
    specification (infrastructure error), never a violation of the code. with_modules: specification modules the
    proof module EXTENDS (the proof is then about the very module TLC checks)."""
    d = tempfile.mkdtemp(prefix="tlaps-", dir=ctx.work)
    src = os.path.join(SPECS, relpath)
    shutil.copy(src, d)
    for m in with_modules:
        shutil.copy(os.path.join(SPECS, m), d)
    t = time.time()
    # The back ends work under per-obligation time limits: on a busy machine an obligation that normally takes a fraction of a
    # second can run out of time. Retry with stretched limits. The proofs are about the specification alone (no code of /repo is
    # involved), so a proof that still cannot be replayed is reported in the evidence and as a warning, and does not end the check.
    m, out = None, ""
    for attempt, stretch in enumerate(("1", "4", "10")):
        p = subprocess.run(["timeout", str(timeout), "tlapm", "--stretch", stretch, "--threads", str(max(2, NCPU // 2)), os.path.basename(src)],
                           cwd=d, capture_output=True, text=True)
        out = p.stdout + p.stderr
        m = re.search(r"All (\d+) obligations? proved", out)
        if p.returncode == 0 and m:
            break
        m = None
    shutil.rmtree(d, ignore_errors=True)
    if not m:
        ctx.tlc_runs.append({"loop": "proof", "module": relpath, "obligations": None, "discharged": 0, "wall_s": round(time.time() - t, 1),
                             "warning": "tlapm could not replay the proof in this run (3 attempts): " + " | ".join(out.splitlines()[-3:])[:300]})
        log("[proof] WARNING %s: tlapm could not replay the proof in this run (3 attempts, stretched time limits); the check goes on" % relpath)
        return 0
    n = int(m.group(1))
    ctx.tlc_runs.append({"loop": "proof", "module": relpath, "obligations": n, "discharged": n, "wall_s": round(time.time() - t, 1)})
    log("[proof] %s: all %d obligations proved by tlapm, %.1fs" % (relpath, n, time.time() - t))
    return n


_TAGGED = re.compile(r'^<<"([A-Z]+)", "(.*)">>$')


def _untla(s):
    # TLC prints a TLA+ string value with \" and \\ escapes
    return s.replace('\\"', '"').replace("\\\\", "\\")


def tagged_lines(out, tag):
    res = []
    for line in out.splitlines():
        m = _TAGGED.match(line)
        if m and m.group(1) == tag:
            res.append(json.loads(_untla(m.group(2))))
    return res


def tlc_generate(ctx, module, cfg, timeout=1800, simulate=None, env_extra=None, workers=1):
    """Loop B: every reachable state of the generation machine prints one CASE."""
    extra = []
    if simulate:
        extra = ["-simulate", "num=%d" % simulate["num"], "-depth", str(simulate["depth"]), "-seed", str(ctx.seed)]
    rc, out, wall = _tlc(ctx, module, cfg, workers, extra=extra, timeout=timeout, env_extra=env_extra)
    if rc != 0 and not simulate:
        tail = "\n".join(out.splitlines()[-60:])
        raise Infra("Loop B: TLC failed generating cases from %s (%s), rc=%d:\n%s" % (module, cfg, rc, tail))
    cases = tagged_lines(out, "CASE")
    distinct, generated = _stats(out)
    if not simulate:
        ctx.states += distinct
        ctx.transitions += generated
    ctx.tlc_runs.append({"loop": "B", "module": module, "cfg": cfg, "distinct": distinct, "generated": generated,
                         "cases": len(cases), "wall_s": round(wall, 1), "simulate": bool(simulate)})
    log("[loopB] %s/%s: %d cases from %d distinct states, %.1fs" % (module, cfg, len(cases), distinct, wall))
    if not cases:
        raise Infra("Loop B: no cases generated by %s/%s" % (module, cfg))
    return cases


def write_ndjson(path, objs):
    with open(path, "w") as f:
        for o in objs:
            f.write(json.dumps(o, separators=(",", ":")))
            f.write("\n")


def read_ndjson(path):
    res = []
    with open(path) as f:
        for line in f:
            line = line.strip()
            if line:
                res.append(json.loads(line))
    return res


def tlc_judge(ctx, module, cfg, trace_path, shard=8000, timeout=1800, by_history=False):
    """Loop C: the trace module folds over the recorded lines; returns (bad, stats).

    bad: list of {"id":..., "failed":[conjunct names]}.
    The trace is sharded (at history boundaries when by_history) and judged in parallel."""
    lines = []
    with open(trace_path) as f:
        for line in f:
            if line.strip():
                lines.append(line if line.endswith("\n") else line + "\n")
    if not lines:
        raise Infra("Loop C: empty trace %s" % trace_path)
    shards = []
    cur = []
    for ln in lines:
        if len(cur) >= shard and (not by_history or '"reset":true' in ln):
            shards.append(cur)
            cur = []
        cur.append(ln)
    if cur:
        shards.append(cur)
    paths = []
    for i, sh in enumerate(shards):
        p = os.path.join(ctx.work, "%s-shard-%d-%d.ndjson" % (os.path.basename(trace_path), i, int(time.time() * 1000) % 100000))
        with open(p, "w") as f:
            f.writelines(sh)
        paths.append((p, len(sh)))

    def one(arg):
        p, n = arg
        rc, out, wall = _tlc(ctx, module, cfg, 1, env_extra={"TRACE": p}, timeout=timeout, heap="3g")
        v = tagged_lines(out, "VERDICT")
        if rc != 0 or len(v) != 1:
            tail = "\n".join(out.splitlines()[-40:])
            raise Infra("Loop C: judge %s failed on %s (rc=%d, verdict lines=%d):\n%s" % (module, p, rc, len(v), tail))
        v = v[0]
        if v.get("consumed") != n:
            raise Infra("Loop C: judge %s consumed %s of %d lines of %s" % (module, v.get("consumed"), n, p))
        return v, wall

    t = time.time()
    with ThreadPoolExecutor(max_workers=max(1, min(len(paths), NCPU // 2))) as ex:
        results = list(ex.map(one, paths))
    bad = []
    stats = {}
    for v, _ in results:
        for b in v.get("bad", []):
            bad.append({"id": b["id"], "failed": sorted(b["failed"])})
        for k, val in (v.get("stats") or {}).items():
            if isinstance(val, int):
                stats[k] = stats.get(k, 0) + val
    for p, _ in paths:
        os.remove(p)
    ctx.tlc_runs.append({"loop": "C", "module": module, "lines": len(lines), "shards": len(paths), "bad": len(bad),
                         "wall_s": round(time.time() - t, 1)})
    log("[loopC] %s: %d lines judged in %d shard(s), %d non-conforming, %.1fs" % (module, len(lines), len(paths), len(bad), time.time() - t))
    return bad, stats


# --------------------------------------------------------------------------- known findings

def load_findings():
    """KNOWN_FINDINGS.txt: 'finding: property=Cxx match={json} :: text' and 'fixed: ...' (suppress nothing)."""
    res = []
    if not os.path.exists(FINDINGS):
        return res
    for raw in open(FINDINGS):
        line = raw.strip()
        if not line.startswith("finding:"):
            continue
        m = re.match(r"finding:\s+property=(C\d+)\s+match=(\{.*\})\s+::\s+(.*)$", line)
        if not m:
            raise Infra("unparsable known-finding line: %s" % line)
        res.append({"property": m.group(1), "match": json.loads(m.group(2)), "text": m.group(3)})
    return res


def _get(obj, dotted):
    cur = obj
    for part in dotted.split("."):
        if isinstance(cur, dict) and part in cur:
            cur = cur[part]
        else:
            return None
    return cur


def finding_matches(f, prop, rec, failed):
    """A finding matches a failing record iff property equals, every failed conjunct is listed in
    match['failed'] and every other key (dotted path into the record) equals / regex-matches."""
    if f["property"] != prop:
        return False
    m = f["match"]
    allowed = m.get("failed")
    if allowed is None or not set(failed) <= set(allowed):
        return False
    for k, want in m.items():
        if k == "failed":
            continue
        got = _get(rec, k)
        if isinstance(want, str) and want.startswith("re:"):
            if got is None or not re.search(want[3:], got if isinstance(got, str) else json.dumps(got, separators=(",", ":"))):
                return False
        elif got != want:
            return False
    return True


# --------------------------------------------------------------------------- verdict + evidence

def text_of(cps):
    try:
        return "".join(chr(c) for c in cps)
    except Exception:
        return None


def pretty(x):
    """Readable rendering of trace values: arrays of one-character strings become strings."""
    if isinstance(x, list):
        if x and all(isinstance(c, str) and len(c) == 1 for c in x):
            return "".join(x)
        return [pretty(v) for v in x]
    if isinstance(x, dict):
        return {k: pretty(v) for k, v in x.items()}
    return x


def finish(ctx, level, coverage, assumptions, failures, replay_family=None):
    """failures: list of {"rec": trace record, "failed": [conjuncts], "family": fam}.
    Classifies against KNOWN_FINDINGS.txt, writes evidence, prints verdict lines, returns exit code."""
    if getattr(ctx, "selftest", False):
        want = sorted(getattr(ctx, "corrupted", []))
        got = sorted({(fl.get("family"), fl["rec"]["id"]) for fl in failures})
        if want and got == want:
            log("SELFTEST ok property=%s: the judge reported exactly the %d corrupted line(s) %s" % (ctx.prop, len(want), want))
            return 0
        log("SELFTEST FAILED property=%s: corrupted %s but the judge reported %s" % (ctx.prop, want, got[:10]))
        return 3
    findings = load_findings()
    known = {}
    unknown = []
    for fl in failures:
        hit = None
        for i, f in enumerate(findings):
            if finding_matches(f, ctx.prop, fl["rec"], fl["failed"]):
                hit = i
                break
        if hit is None:
            unknown.append(fl)
        else:
            known.setdefault(hit, []).append(fl)
    for i, fls in sorted(known.items()):
        log("KNOWN-FINDING: property=%s %s (%d matching case(s) this run)" % (ctx.prop, findings[i]["text"], len(fls)))
    rc = 0
    replay_paths = []
    if unknown:
        classes = {}
        for fl in unknown:
            k = (fl.get("family"), ",".join(fl["failed"]))
            classes[k] = classes.get(k, 0) + 1
        for (fam, k), n in sorted(classes.items(), key=lambda kv: -kv[1]):
            log("[fail-class] %s %s: %d case(s)" % (fam, k, n))
        os.makedirs(REPLAYS, exist_ok=True)
        seen = {}
        for fl in unknown:
            key = (fl.get("family"), tuple(fl["failed"]))
            seen[key] = seen.get(key, 0) + 1
            if seen[key] > 2 or len(replay_paths) >= 12:
                continue
            blob = json.dumps({"property": ctx.prop, "family": fl.get("family"), "failed": fl["failed"], "record": fl["rec"],
                               "seed": ctx.seed}, sort_keys=True, indent=1)
            h = hashlib.sha256(blob.encode()).hexdigest()[:12]
            path = os.path.join(REPLAYS, "%s-%s.json" % (ctx.prop, h))
            with open(path, "w") as f:
                f.write(blob + "\n")
            replay_paths.append(path)
            log("VIOLATION property=%s replay=%s" % (ctx.prop, path))
            log("  failed conjuncts: %s" % ",".join(fl["failed"]))
            log("  case: %s" % json.dumps(pretty(fl["rec"].get("case")), separators=(",", ":"), ensure_ascii=False)[:500])
            log("  conc: %s" % json.dumps(pretty(fl["rec"].get("conc")), separators=(",", ":"), ensure_ascii=False)[:300])
            log("  obs:  %s" % json.dumps(pretty(fl["rec"].get("obs")), separators=(",", ":"), ensure_ascii=False)[:500])
        rc = 1
    coverage = dict(coverage)
    coverage.setdefault("states", ctx.states)
    coverage.setdefault("transitions", ctx.transitions)
    coverage["tlc_runs"] = ctx.tlc_runs
    coverage["known_finding_cases"] = sum(len(v) for v in known.values())
    ev = {
        "property_id": ctx.prop,
        "tier": ctx.tier,
        "seed": ctx.seed,
        "level": level,
        "coverage": coverage,
        "assumptions": assumptions,
        "wall_s": round(time.time() - ctx.t0, 1),
        "violations": len(unknown),
    }
    # evidence describes runs against /repo itself, never against a scratch copy (bin/mutants -j); there the file goes to the
    # scratch directory of the run and disappears with it
    evdir = EVIDENCE if REPO == "/repo" else ctx.work
    os.makedirs(evdir, exist_ok=True)
    with open(os.path.join(evdir, "%s.json" % ctx.prop), "w") as f:
        json.dump(ev, f, indent=1, sort_keys=True)
        f.write("\n")
    log("[done] property=%s tier=%s seed=%d violations=%d known=%d wall=%.1fs" % (
        ctx.prop, ctx.tier, ctx.seed, len(unknown), coverage["known_finding_cases"], time.time() - ctx.t0))
    return rc


def index_by_id(trace):
    return {r["id"]: r for r in trace}


def collect_failures(trace, bad, family, only_prefix=None, cases=None):
    """Join judge verdicts with trace records. only_prefix: keep conjuncts of this property
    (names 'Cxx_...') plus unprefixed ones."""
    by = index_by_id(trace)
    res = []
    for b in bad:
        failed = b["failed"]
        if only_prefix and not os.environ.get("VERIF_ALLCONJ"):
            failed = [c for c in failed if c.startswith(only_prefix + "_") or not re.match(r"^C\d\d_", c)]
        if not failed:
            continue
        rec = by.get(b["id"])
        if rec is None:
            raise Infra("judge reported unknown id %r" % (b["id"],))
        if cases is not None and rec.get("cid") in cases:
            rec = dict(rec)
            rec["case_full"] = cases[rec["cid"]]
        res.append({"rec": rec, "failed": failed, "family": family})
    return res
